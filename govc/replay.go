package main

// Replay of solver counterexamples against the real code: the model's inputs are turned into a Go test
// that is injected into package dns with `go test -overlay` (nothing is written to the repository).

import (
	"bytes"
	"context"
	"encoding/json"
	"fmt"
	"go/types"
	"os"
	"os/exec"
	"path/filepath"
	"regexp"
	"strconv"
	"strings"
	"time"
)

type replayFile struct {
	Property   string            `json:"property"`
	Obligation string            `json:"obligation"`
	Function   string            `json:"function"`
	Kind       string            `json:"kind"`
	Source     string            `json:"source"`
	Status     string            `json:"solver_status"`
	Solver     string            `json:"solver"`
	Output     string            `json:"solver_output"`
	Model      map[string]string `json:"model_inputs,omitempty"`
	Test       string            `json:"replay_test,omitempty"`
	Result     string            `json:"replay_result,omitempty"`
	Confirmed  bool              `json:"confirmed_on_real_code"`
	Note       string            `json:"note,omitempty"`
}

var modelPairRe = regexp.MustCompile(`\(([^\s()]+)\s+(\(-\s*\d+\)|-?\d+|true|false)\)`)

func parseModel(s string) map[string]string {
	m := map[string]string{}
	for _, p := range modelPairRe.FindAllStringSubmatch(s, -1) {
		v := p[2]
		if strings.HasPrefix(v, "(-") {
			v = "-" + strings.TrimSpace(strings.TrimSuffix(strings.TrimPrefix(v, "(-"), ")"))
		}
		m[p[1]] = v
	}
	return m
}

func (e *Engine) writeReplay(dir, prop string, ob *Obligation, doReplay bool) string {
	os.MkdirAll(dir, 0o755)
	path := filepath.Join(dir, prop+"-"+mangle(ob.Name)+".json")
	rf := replayFile{Property: prop, Obligation: ob.Name, Function: ob.Fn, Kind: ob.Kind, Source: ob.Src, Status: ob.Status, Solver: ob.Solver, Output: trimTo(ob.Output, 4000)}
	if ob.Status == "failed" && ob.Model != "" {
		rf.Model = parseModel(ob.Model)
		if doReplay {
			e.replayModel(ob, &rf)
		} else {
			rf.Note = "replay skipped (more than three violations in this run)"
		}
	} else {
		rf.Note = "the solver returned no model (" + ob.Status + "); the obligation was discharged on the unchanged tree and is not discharged now"
	}
	ob.Replayed = rf.Confirmed
	b, _ := json.MarshalIndent(rf, "", " ")
	os.WriteFile(path, b, 0o644)
	return path
}

func trimTo(s string, n int) string {
	if len(s) > n {
		return s[:n] + "..."
	}
	return s
}

// ---------------------------------------------------------------------------

func (e *Engine) replayModel(ob *Obligation, rf *replayFile) {
	fc := ob.fc
	fn := fc.fn
	sig := fn.Signature
	// second solver run: pin the scalar inputs and read the byte contents of sequences
	seqTerms := map[string][]string{} // param name -> terms
	var extra []string
	for name, v := range rf.Model {
		extra = append(extra, fmt.Sprintf("(assert (= %s %s))", name, smtInt(v)))
	}
	var getTerms []string
	type seqInfo struct {
		name string
		n    int
		str  bool
	}
	var seqs []seqInfo
	for _, p := range fn.Params {
		v := fc.vals[p]
		switch v.K {
		case KStr, KSlice:
			if v.K == KSlice && typeName(v.T.Underlying().(*types.Slice).Elem()) != "uint8" {
				rf.Note = "parameter " + p.Name() + " has an unsupported type for replay"
				return
			}
			n, _ := strconv.Atoi(rf.Model[v.C[2]])
			if n > 70000 {
				rf.Note = "model needs a sequence longer than 70000 octets; replay skipped"
				return
			}
			var arr, off string
			if v.K == KStr {
				arr, off = v.C[0], v.C[1]
			} else {
				hn := mangle("A.uint8.v") + "@0"
				if !fc.declared[hn] {
					seqs = append(seqs, seqInfo{p.Name(), n, false})
					continue
				}
				arr, off = fmt.Sprintf("(select %s %s)", hn, v.C[0]), v.C[1]
			}
			for i := 0; i < n && i < 4096; i++ {
				t := fmt.Sprintf("(select %s (+ %s %d))", arr, off, i)
				getTerms = append(getTerms, t)
				seqTerms[p.Name()] = append(seqTerms[p.Name()], t)
			}
			seqs = append(seqs, seqInfo{p.Name(), n, v.K == KStr})
		}
	}
	bytesOf := map[string][]byte{}
	for _, s := range seqs {
		bytesOf[s.name] = make([]byte, s.n)
	}
	if len(getTerms) > 0 {
		q := fc.query(ob, false, true)
		q = strings.Replace(q, "(check-sat)", strings.Join(extra, "\n")+"\n(check-sat)", 1)
		// replace the get-value line
		if i := strings.LastIndex(q, "(get-value"); i >= 0 {
			q = q[:i]
		}
		q += "(get-value (" + strings.Join(getTerms, " ") + "))\n"
		f := filepath.Join(e.workdir, "replay_"+mangle(ob.Name)+".smt2")
		os.WriteFile(f, []byte(q), 0o644)
		res, out, _ := runSolver(solvers[0], f, e.timeout)
		if res != "sat" {
			res, out, _ = runSolver(solvers[1], f, e.timeout)
		}
		if res != "sat" {
			rf.Note = "could not extract sequence contents from the solver (" + res + ")"
			return
		}
		vals := parseValueList(out, len(getTerms))
		k := 0
		for _, s := range seqs {
			for i := range seqTerms[s.name] {
				if k < len(vals) {
					bytesOf[s.name][i] = byte(vals[k])
				}
				k++
			}
		}
	}
	// build the test: inputs are rebuilt from "slots" (integer inputs and sequence lengths) so that a bounded
	// search around the model can be run when the model itself does not fail on the real code
	sl := &slots{}
	var sb strings.Builder
	sb.WriteString("package dns\n\nimport (\n\t\"fmt\"\n\t\"testing\"\n\t\"time\"\n)\n\n")
	sb.WriteString("var _ = fmt.Sprint\n\n")
	var decl strings.Builder
	var args []string
	recvExpr := ""
	for i, p := range fn.Params {
		v := fc.vals[p]
		name := p.Name()
		if name == "" || name == "_" {
			name = fmt.Sprintf("arg%d", i)
		}
		lit, ok := e.goLiteral(fc, p.Type(), v, rf.Model, bytesOf[p.Name()], sl, name)
		if !ok {
			rf.Note = "parameter " + name + " of type " + p.Type().String() + " cannot be reconstructed from the model; replay skipped"
			return
		}
		fmt.Fprintf(&decl, "\tvar %s %s = %s\n\t_ = %s\n", name, typeStr(p.Type()), lit, name)
		if i == 0 && sig.Recv() != nil {
			recvExpr = name
			continue
		}
		args = append(args, name)
	}
	call := ""
	if sig.Recv() != nil {
		call = recvExpr + "." + fn.Name() + "(" + strings.Join(args, ", ") + ")"
	} else {
		call = fn.Name() + "(" + strings.Join(args, ", ") + ")"
	}
	sb.WriteString("func verifAttempt(s []int) (res string) {\n")
	sb.WriteString(decl.String())
	for _, p := range fn.Params {
		if fc.vals[p].K == KSlice {
			fmt.Fprintf(&sb, "\told_%s := append([]byte(nil), %s...)\n\t_ = old_%s\n", p.Name(), p.Name(), p.Name())
		}
	}
	var rets []string
	for i := 0; i < sig.Results().Len(); i++ {
		rets = append(rets, fmt.Sprintf("ret%d", i))
		fmt.Fprintf(&sb, "\tvar ret%d %s\n\t_ = ret%d\n", i, typeStr(sig.Results().At(i).Type()), i)
	}
	// inputs outside the function's preconditions are skipped
	preSpecs := ""
	modelOnly := false
	if fc.con != nil {
		for i := range fc.con.Requires {
			g := &goGen{e: e, fc: fc, specs: map[string]bool{}}
			code, kind, err := g.expr(fc.con.Requires[i].E, false)
			if err != nil || kind != "bool" {
				modelOnly = true
				continue
			}
			fmt.Fprintf(&sb, "\tif !(%s) {\n\t\treturn \"\"\n\t}\n", code)
			preSpecs += g.specDefs()
		}
	}
	if modelOnly {
		sl.noSearch = true
	}
	sb.WriteString("\tpanicked := func() (p bool) {\n\t\tdefer func() {\n\t\t\tif r := recover(); r != nil {\n\t\t\t\tp = true\n\t\t\t\tres = fmt.Sprintf(\"panic: %v\", r)\n\t\t\t}\n\t\t}()\n")
	if len(rets) > 0 {
		sb.WriteString("\t\t" + strings.Join(rets, ", ") + " = " + call + "\n")
	} else {
		sb.WriteString("\t\t" + call + "\n")
	}
	sb.WriteString("\t\treturn false\n\t}()\n\tif panicked {\n\t\treturn\n\t}\n")
	specCode := ""
	if ob.Kind == "post" && ob.Clause != nil {
		g := &goGen{e: e, fc: fc, specs: map[string]bool{}}
		code, kind, err := g.expr(ob.Clause.E, false)
		if err == nil && kind == "bool" {
			fmt.Fprintf(&sb, "\tif !(%s) {\n\t\treturn \"contract-violated %s\"\n\t}\n", code, ob.Clause.Label)
			specCode = g.specDefs()
		} else if err != nil {
			rf.Note = "postcondition not translatable to Go (" + err.Error() + "); only panics are observed"
		}
	}
	sb.WriteString("\treturn \"\"\n}\n\n")
	// driver: the model first, then a bounded search varying one or two slots
	fmt.Fprintf(&sb, "var verifModel = []int{%s}\n", strings.Join(sl.model, ", "))
	fmt.Fprintf(&sb, "var verifNames = []string{%s}\n", strings.Join(sl.names, ", "))
	fmt.Fprintf(&sb, "var verifFull = []int{%s}\n", strings.Join(sl.full, ", "))
	cone := fc.cone(ob)
	var inCone []string
	for _, t := range sl.terms {
		if cone[t] {
			inCone = append(inCone, "true")
		} else {
			inCone = append(inCone, "false")
		}
	}
	fmt.Fprintf(&sb, "var verifCone = []bool{%s}\n\n", strings.Join(inCone, ", "))
	if sl.noSearch {
		// a precondition has no runtime counterpart: only the solver's model is tried
		sb.WriteString("func init() { verifModelOnly = true }\n")
	}
	sb.WriteString(replayDriver)
	sb.WriteString(goHelpers)
	sb.WriteString(dedupFuncs(specCode + preSpecs))
	test := sb.String()
	rf.Test = test
	out, err := e.runOverlayTest(test)
	res := ""
	for _, l := range strings.Split(out, "\n") {
		if strings.HasPrefix(l, "REPLAY-RESULT ") {
			res = strings.TrimPrefix(l, "REPLAY-RESULT ")
		}
	}
	if res == "" {
		res = "no result"
		if err != nil {
			res += ": " + trimTo(out, 1500)
		}
	}
	rf.Result = res
	// what counts as the failure showing on the real code: the violated postcondition itself, or a panic when the
	// failed obligation is a panic-freedom obligation and every precondition was checked on the input (an input
	// built without regard to a precondition that has no runtime counterpart may panic for that reason alone)
	safety := map[string]bool{"bounds": true, "nil": true, "div": true, "shift": true, "tassert": true, "unreach": true, "alloc": true, "pre": true}
	switch {
	case strings.HasPrefix(res, "contract-violated"):
		rf.Confirmed = true
	case strings.HasPrefix(res, "panic:") && safety[ob.Kind] && !modelOnly:
		rf.Confirmed = true
	case strings.HasPrefix(res, "panic:"):
		rf.Note = "the replay panicked, but that does not demonstrate this obligation (kind " + ob.Kind + ", preconditions without runtime counterpart: " + fmt.Sprint(modelOnly) + "); not counted as a failing input"
	}
}

type slots struct {
	noSearch bool
	terms []string
	curTerm string
	model []string
	names []string
	full  []string // size of the full domain to sweep (0: boundary values only)
}

func (sl *slots) add(name, model string, full int) int {
	sl.terms = append(sl.terms, sl.curTerm)
	sl.model = append(sl.model, model)
	sl.names = append(sl.names, strconv.Quote(name))
	sl.full = append(sl.full, strconv.Itoa(full))
	return len(sl.model) - 1
}

const replayDriver = `
var verifModelOnly bool

var verifBoundary = []int{0, 1, 2, 3, 4, 5, 6, 7, 8, 9, 10, 11, 12, 13, 15, 16, 17, 31, 32, 33, 63, 64, 65, 127, 128, 129, 191, 192, 193, 254, 255, 256, 257, 511, 512, 1023, 1024, 4095, 4096, 16383, 16384, 32767, 32768, 65534, 65535, -1, -2}

func verifDomain(k int) []int {
	if verifFull[k] > 0 {
		d := make([]int, verifFull[k])
		for i := range d {
			d[i] = i
		}
		return d
	}
	return verifBoundary
}

// verifSweep tries every value of slot a (in parallel), other slots fixed as in s.
func verifSweep(s []int, a int) (string, int) {
	dom := verifDomain(a)
	const workers = 16
	type hit struct {
		r string
		v int
	}
	ch := make(chan hit, workers)
	for w := 0; w < workers; w++ {
		go func(w int) {
			loc := append([]int(nil), s...)
			for i := w; i < len(dom); i += workers {
				loc[a] = dom[i]
				if r := verifAttempt(loc); r != "" {
					ch <- hit{r, dom[i]}
					return
				}
			}
			ch <- hit{}
		}(w)
	}
	best := hit{}
	for w := 0; w < workers; w++ {
		h := <-ch
		if h.r != "" && (best.r == "" || h.v < best.v) {
			best = h
		}
	}
	return best.r, best.v
}

func TestVerifReplay(t *testing.T) {
	s := append([]int(nil), verifModel...)
	if r := verifAttempt(s); r != "" {
		fmt.Printf("REPLAY-RESULT %s [solver model]\n", r)
		return
	}
	if verifModelOnly {
		fmt.Printf("REPLAY-RESULT returned [solver model only]\n")
		return
	}
	deadline := time.Now().Add(40 * time.Second)
	n := 0
	for a := range s {
		n += len(verifDomain(a))
		if r, va := verifSweep(s, a); r != "" {
			fmt.Printf("REPLAY-RESULT %s [bounded search around the model: %s=%d]\n", r, verifNames[a], va)
			return
		}
	}
	// pairs: slot a over its domain x slot b over the boundary values (later slots first: lengths and offsets)
	for b := len(s) - 1; b >= 0; b-- {
		if !verifCone[b] {
			continue // slots the failed obligation does not depend on are only swept, not paired
		}
		for _, vb := range verifBoundary {
			for a := range s {
				if a == b {
					continue
				}
				s[b] = vb
				n += len(verifDomain(a))
				if r, va := verifSweep(s, a); r != "" {
					fmt.Printf("REPLAY-RESULT %s [bounded search around the model: %s=%d %s=%d]\n", r, verifNames[a], va, verifNames[b], vb)
					return
				}
				s[b] = verifModel[b]
			}
			if time.Now().After(deadline) {
				fmt.Printf("REPLAY-RESULT returned [model and %d variations, time bound reached]\n", n)
				return
			}
		}
	}
	fmt.Printf("REPLAY-RESULT returned [model and %d variations]\n", n)
}

func vmk(base []byte, n int) []byte {
	if n < 0 || n > 70000 {
		n = len(base)
	}
	out := make([]byte, n)
	copy(out, base)
	return out
}
`

func smtInt(v string) string {
	if v == "true" || v == "false" {
		return v
	}
	if strings.HasPrefix(v, "-") {
		return "(- " + v[1:] + ")"
	}
	return v
}

var valRe = regexp.MustCompile(`\)\s+(\(-\s*\d+\)|-?\d+)\)`)

// parseValueList extracts the values of a get-value answer in order.
func parseValueList(out string, n int) []int {
	// each entry looks like ((select ...) 12) ; take the last integer before each closing pair
	var vals []int
	depth := 0
	start := -1
	for i := 0; i < len(out); i++ {
		switch out[i] {
		case '(':
			depth++
			if depth == 2 {
				start = i
			}
		case ')':
			if depth == 2 && start >= 0 {
				entry := out[start : i+1]
				// value is the last token
				j := strings.LastIndexAny(entry[:len(entry)-1], " \n")
				tok := strings.TrimSpace(entry[j+1 : len(entry)-1])
				if strings.HasSuffix(tok, ")") { // (- 5)
					k := strings.LastIndex(entry, "(-")
					tok = "-" + strings.TrimSpace(strings.Trim(entry[k+2:len(entry)-1], ") "))
				}
				v, _ := strconv.Atoi(tok)
				vals = append(vals, v)
				start = -1
			}
			depth--
		}
	}
	return vals
}

func typeStr(t types.Type) string {
	return types.TypeString(t, func(p *types.Package) string {
		if p.Path() == dnsPath {
			return ""
		}
		return p.Name()
	})
}

// goLiteral builds a Go expression for a parameter value from the model; integer leaves and sequence
// lengths become slots s[k] so that the replay driver can vary them.
func (e *Engine) goLiteral(fc *FnCtx, t types.Type, v Val, model map[string]string, seq []byte, sl *slots, path string) (string, bool) {
	get := func(term string) (string, bool) {
		if n, ok := litOf(term); ok {
			return n.String(), true
		}
		x, ok := model[term]
		return x, ok
	}
	switch v.K {
	case KInt:
		if isFloat(t) {
			return "0", true
		}
		x, ok := get(v.C[0])
		if !ok {
			x = "0"
		}
		bits, signed, _ := intBits(t)
		full := 0
		if !signed && bits <= 16 {
			full = 1 << bits
		}
		if len(x) > 18 {
			return fmt.Sprintf("%s(%s)", typeStr(t), x), true
		}
		sl.curTerm = v.C[0]
		k := sl.add(path, x, full)
		return fmt.Sprintf("%s(s[%d])", typeStr(t), k), true
	case KBool:
		x, ok := get(v.C[0])
		if !ok {
			x = "false"
		}
		return x, true
	case KStr:
		return fmt.Sprintf("%s(%s)", typeStr(t), strconv.Quote(string(seq))), true
	case KSlice:
		if typeName(t.Underlying().(*types.Slice).Elem()) != "uint8" {
			return "", false
		}
		ref, _ := get(v.C[0])
		if ref == "0" {
			return "nil", true
		}
		var parts []string
		for _, b := range seq {
			parts = append(parts, strconv.Itoa(int(b)))
		}
		sl.curTerm = v.C[2]
		k := sl.add("len("+path+")", strconv.Itoa(len(seq)), 0)
		return fmt.Sprintf("%s(vmk([]byte{%s}, s[%d]))", typeStr(t), strings.Join(parts, ","), k), true
	case KStruct:
		st := t.Underlying().(*types.Struct)
		var parts []string
		for i := 0; i < st.NumFields(); i++ {
			lo, hi, ft := fieldRange(t, i)
			var fseq []byte
			fv := mkVal(ft, v.C[lo:hi])
			if fv.K == KStr {
				n, _ := strconv.Atoi(model[fv.C[2]])
				if n > 70000 {
					return "", false
				}
				fseq = bytes.Repeat([]byte("a"), n)
			}
			l, ok := e.goLiteral(fc, ft, fv, model, fseq, sl, path+"."+st.Field(i).Name())
			if !ok {
				return "", false
			}
			parts = append(parts, st.Field(i).Name()+": "+l)
		}
		return typeStr(t) + "{" + strings.Join(parts, ", ") + "}", true
	case KPtr:
		pt, ok := t.Underlying().(*types.Pointer)
		if !ok {
			return "", false
		}
		if _, ok := pt.Elem().Underlying().(*types.Struct); !ok {
			return "", false
		}
		return "new(" + typeStr(pt.Elem()) + ")", true
	}
	return "", false
}

func (e *Engine) runOverlayTest(test string) (string, error) {
	dir, err := os.MkdirTemp("", "govc-replay")
	if err != nil {
		return "", err
	}
	defer os.RemoveAll(dir)
	tf := filepath.Join(dir, "zz_verif_replay_test.go")
	os.WriteFile(tf, []byte(test), 0o644)
	ov := map[string]map[string]string{"Replace": {filepath.Join(e.repo, "zz_verif_replay_test.go"): tf}}
	ob, _ := json.Marshal(ov)
	ovf := filepath.Join(dir, "overlay.json")
	os.WriteFile(ovf, ob, 0o644)
	ctx, cancel := context.WithTimeout(context.Background(), 180*time.Second)
	defer cancel()
	cmd := exec.CommandContext(ctx, "go", "test", "-overlay", ovf, "-vet=off", "-count=1", "-timeout", "60s", "-run", "TestVerifReplay$", "-v", ".")
	cmd.Dir = e.repo
	// the repository's own toolchain: default go, auto toolchain switch, no GOSUMDB/GOTOOLCHAIN overrides
	var env []string
	for _, kv := range os.Environ() {
		if strings.HasPrefix(kv, "GOSUMDB=") || strings.HasPrefix(kv, "GOTOOLCHAIN=") || strings.HasPrefix(kv, "GOFLAGS=") || strings.HasPrefix(kv, "PATH=") {
			continue
		}
		env = append(env, kv)
	}
	path := os.Getenv("PATH")
	var pp []string
	for _, p := range strings.Split(path, ":") {
		if strings.Contains(p, "go1.26") {
			continue
		}
		pp = append(pp, p)
	}
	env = append(env, "PATH="+strings.Join(pp, ":"), "GOFLAGS=-mod=mod", "GOPROXY=off")
	cmd.Env = env
	var out bytes.Buffer
	cmd.Stdout = &out
	cmd.Stderr = &out
	err = cmd.Run()
	return out.String(), err
}

// dedupFuncs removes repeated top-level function definitions (spec functions used by several clauses).
func dedupFuncs(code string) string {
	seen := map[string]bool{}
	var out []string
	for _, blk := range strings.Split(code, "\n\n") {
		b := strings.TrimSpace(blk)
		if b == "" || seen[b] {
			continue
		}
		seen[b] = true
		out = append(out, b)
	}
	return strings.Join(out, "\n\n") + "\n"
}

// cone returns the input symbols the obligation's formula depends on (through defining equalities).
func (fc *FnCtx) cone(ob *Obligation) map[string]bool {
	defs := map[string][]string{}
	tok := func(f string) []string {
		return strings.FieldsFunc(f, func(r rune) bool { return r == '(' || r == ')' || r == ' ' || r == '\n' })
	}
	for _, a := range fc.asserts[:ob.Prefix] {
		ts := tok(a)
		// every symbol of an assertion is related to every other one: index by each declared symbol
		for _, t := range ts {
			if fc.declared[t] {
				defs[t] = append(defs[t], a)
			}
		}
	}
	seen := map[string]bool{}
	doneA := map[string]bool{}
	var work []string
	for _, t := range tok(ob.Cond + " " + ob.Guard) {
		if fc.declared[t] && !seen[t] {
			seen[t] = true
			work = append(work, t)
		}
	}
	steps := 0
	for len(work) > 0 && steps < 4000 {
		x := work[len(work)-1]
		work = work[:len(work)-1]
		// only follow definitions "(= x ...)" to stay within the data-flow cone
		for _, a := range defs[x] {
			if doneA[a] || !strings.Contains(a, "(= "+x+" ") {
				continue
			}
			doneA[a] = true
			steps++
			for _, t := range tok(a) {
				if fc.declared[t] && !seen[t] {
					seen[t] = true
					work = append(work, t)
				}
			}
		}
	}
	return seen
}
