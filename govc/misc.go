package main

import (
	"go/types"
	"strings"

	"golang.org/x/tools/go/ssa"
)

// builtinModel: hard-coded models of library functions (none yet; extern contracts are preferred).
func (fc *FnCtx) builtinModel(name string, res ssa.Value, c *ssa.CallCommon, in ssa.Instruction) bool {
	return false
}


// contractFor returns the contract that applies to fn: its own `func`/`extern` contract, the contract of
// its generic origin, and/or the `iface` contract of an interface method it implements (behavioural
// subtyping: the implementation is checked against, and called through, the interface contract).
func (e *Engine) contractFor(fn *ssa.Function) *Contract {
	if c, ok := e.conCache[fn]; ok {
		return c
	}
	if e.conCache == nil {
		e.conCache = map[*ssa.Function]*Contract{}
	}
	name := fnName(fn)
	own := e.cs.Funcs[name]
	if own != nil && own.Kind == "iface" {
		own = nil
	}
	if own == nil && fn.Origin() != nil {
		own = e.cs.Funcs[fnName(fn.Origin())]
		if own == nil {
			on := fn.Origin().Name()
			own = e.cs.Funcs[on]
		}
	}
	var ic *Contract
	if recv := fn.Signature.Recv(); recv != nil {
		for cname, c := range e.cs.Funcs {
			if c.Kind != "iface" {
				continue
			}
			i := strings.LastIndex(cname, ".")
			if i < 0 || cname[i+1:] != fn.Name() {
				continue
			}
			it := e.lookupType(cname[:i])
			if it == nil {
				continue
			}
			iface, ok := it.Underlying().(*types.Interface)
			if !ok {
				continue
			}
			if types.Implements(recv.Type(), iface) {
				ic = c
				break
			}
		}
	}
	var res *Contract
	switch {
	case own != nil && ic != nil:
		m := *own
		m.Requires = append(append([]Clause{}, ic.Requires...), own.Requires...)
		m.Ensures = nil
		for _, cl := range ic.Ensures {
			skip := false
			for _, l := range strings.Fields(strings.ReplaceAll(own.Opts["skip-post"], ",", " ")) {
				if l == cl.Label {
					skip = true
				}
			}
			if !skip {
				m.Ensures = append(m.Ensures, cl)
			}
		}
		m.Ensures = append(m.Ensures, own.Ensures...)
		m.Tags = append(append([]string{}, ic.Tags...), own.Tags...)
		if !m.HasMod && ic.HasMod {
			m.HasMod, m.Modifies = true, ic.Modifies
		}
		res = &m
	case own != nil:
		res = own
	case ic != nil:
		m := *ic
		m.Kind = "func"
		m.Loops = map[int]*LoopSpec{}
		res = &m
	}
	e.conCache[fn] = res
	return res
}

// implsOf("RR.unpack") lists the methods of package dns types implementing that interface method.
func (e *Engine) implsOf(im string) []string {
	i := strings.LastIndex(im, ".")
	it := e.lookupType(im[:i])
	if it == nil {
		return nil
	}
	iface, ok := it.Underlying().(*types.Interface)
	if !ok {
		return nil
	}
	var out []string
	scope := e.dns.Pkg.Scope()
	for _, n := range scope.Names() {
		tn, ok := scope.Lookup(n).(*types.TypeName)
		if !ok || types.IsInterface(tn.Type()) {
			continue
		}
		for _, t := range []types.Type{tn.Type(), types.NewPointer(tn.Type())} {
			if !types.Implements(t, iface) {
				continue
			}
			sel := e.prog.MethodSets.MethodSet(t).Lookup(e.dns.Pkg, im[i+1:])
			if sel == nil {
				continue
			}
			if f := e.prog.MethodValue(sel); f != nil && f.Synthetic == "" {
				out = append(out, fnName(f))
			}
			break
		}
	}
	return out
}

// checkHeaderIdentity verifies mechanically (on every run) the fact the heap model relies on for
// rr.Header(): every implementation of RR.Header in package dns returns the address of the first field
// (recursively) of its receiver, i.e. the receiver's own address.
func (e *Engine) checkHeaderIdentity() {
	if e.hdrChecked {
		return
	}
	e.hdrChecked = true
	for _, name := range e.implsOf("RR.Header") {
		fn := e.funcs[name]
		ok := fn != nil && len(fn.Blocks) == 1
		if ok {
			ret, isRet := fn.Blocks[0].Instrs[len(fn.Blocks[0].Instrs)-1].(*ssa.Return)
			ok = isRet && len(ret.Results) == 1
			if ok {
				v := ret.Results[0]
				for {
					fa, isFA := v.(*ssa.FieldAddr)
					if !isFA {
						break
					}
					if fa.Field != 0 {
						ok = false
					}
					v = fa.X
				}
				if v != ssa.Value(fn.Params[0]) {
					ok = false
				}
			}
		}
		if !ok {
			e.toolErrors = append(e.toolErrors, "RR.Header implementation "+name+" does not return the address of its first field; the heap model for rr.Header() is invalid")
		}
	}
}
