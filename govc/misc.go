package main

import (
	"regexp"
	"sort"
	"fmt"
	"go/token"
	"go/types"
	"strings"

	"golang.org/x/tools/go/ssa"
)

// builtinModel: hard-coded models of library functions (none yet; extern contracts are preferred).
func (fc *FnCtx) builtinModel(name string, res ssa.Value, c *ssa.CallCommon, in ssa.Instruction) bool {
	return false
}


// contractFor returns the contract that applies to fn: its own `func`/`extern` contract, the contract of
// its generic origin, and/or the `iface` contract of an interface method it implements (behavioural
// subtyping: the implementation is checked against, and called through, the interface contract).
func (e *Engine) contractFor(fn *ssa.Function) *Contract {
	if c, ok := e.conCache[fn]; ok {
		return c
	}
	if e.conCache == nil {
		e.conCache = map[*ssa.Function]*Contract{}
	}
	name := fnName(fn)
	own := e.cs.Funcs[name]
	if own != nil && own.Kind == "iface" {
		own = nil
	}
	if own == nil && fn.Origin() != nil {
		own = e.cs.Funcs[fnName(fn.Origin())]
		if own == nil {
			on := fn.Origin().Name()
			own = e.cs.Funcs[on]
		}
	}
	var ic *Contract
	if recv := fn.Signature.Recv(); recv != nil {
		for cname, c := range e.cs.Funcs {
			if c.Kind != "iface" {
				continue
			}
			i := strings.LastIndex(cname, ".")
			if i < 0 || cname[i+1:] != fn.Name() {
				continue
			}
			it := e.lookupType(cname[:i])
			if it == nil {
				continue
			}
			iface, ok := it.Underlying().(*types.Interface)
			if !ok {
				continue
			}
			if types.Implements(recv.Type(), iface) {
				ic = c
				break
			}
		}
	}
	var res *Contract
	switch {
	case own != nil && ic != nil:
		m := *own
		m.Requires = append(append([]Clause{}, ic.Requires...), own.Requires...)
		m.Ensures = nil
		for _, cl := range ic.Ensures {
			skip := false
			for _, l := range strings.Fields(strings.ReplaceAll(own.Opts["skip-post"], ",", " ")) {
				if l == cl.Label {
					skip = true
				}
			}
			if !skip {
				m.Ensures = append(m.Ensures, cl)
			}
		}
		m.Ensures = append(m.Ensures, own.Ensures...)
		m.Tags = append(append([]string{}, ic.Tags...), own.Tags...)
		m.Opts = map[string]string{}
		for k, v := range ic.Opts {
			m.Opts[k] = v
		}
		for k, v := range own.Opts {
			m.Opts[k] = v
		}
		if all := ic.Loops[-1]; all != nil {
			m.Loops = map[int]*LoopSpec{}
			for k, v := range own.Loops {
				m.Loops[k] = v
			}
			merged := *all
			if o := own.Loops[-1]; o != nil {
				merged.Invs = append(append([]Clause{}, all.Invs...), o.Invs...)
				merged.Decs = append(append([]Clause{}, all.Decs...), o.Decs...)
			}
			m.Loops[-1] = &merged
		}
		if !m.HasMod && ic.HasMod {
			m.HasMod, m.Modifies, m.Writes = true, ic.Modifies, ic.Writes
			m.Fresh = m.Fresh || ic.Fresh
		}
		res = &m
	case own != nil:
		res = own
	case ic != nil:
		m := *ic
		m.Kind = "func"
		m.Loops = map[int]*LoopSpec{}
		if all := ic.Loops[-1]; all != nil {
			m.Loops[-1] = all
		}
		res = &m
	}
	e.conCache[fn] = res
	return res
}

// implsOf("RR.unpack") lists the methods of package dns types implementing that interface method.
func (e *Engine) implsOf(im string) []string {
	i := strings.LastIndex(im, ".")
	it := e.lookupType(im[:i])
	if it == nil {
		return nil
	}
	iface, ok := it.Underlying().(*types.Interface)
	if !ok {
		return nil
	}
	var out []string
	scope := e.dns.Pkg.Scope()
	for _, n := range scope.Names() {
		tn, ok := scope.Lookup(n).(*types.TypeName)
		if !ok || types.IsInterface(tn.Type()) {
			continue
		}
		for _, t := range []types.Type{tn.Type(), types.NewPointer(tn.Type())} {
			if !types.Implements(t, iface) {
				continue
			}
			sel := e.prog.MethodSets.MethodSet(t).Lookup(e.dns.Pkg, im[i+1:])
			if sel == nil {
				continue
			}
			if f := e.prog.MethodValue(sel); f != nil && f.Synthetic == "" {
				out = append(out, fnName(f))
			}
			break
		}
	}
	return out
}

// checkHeaderIdentity verifies mechanically (on every run) the fact the heap model relies on for
// rr.Header(): every implementation of RR.Header in package dns returns the address of the first field
// (recursively) of its receiver, i.e. the receiver's own address.
func (e *Engine) checkHeaderIdentity() {
	if e.hdrChecked {
		return
	}
	e.hdrChecked = true
	for _, name := range e.implsOf("RR.Header") {
		fn := e.funcs[name]
		ok := fn != nil && len(fn.Blocks) == 1
		if ok {
			ret, isRet := fn.Blocks[0].Instrs[len(fn.Blocks[0].Instrs)-1].(*ssa.Return)
			ok = isRet && len(ret.Results) == 1
			if ok {
				v := ret.Results[0]
				for {
					fa, isFA := v.(*ssa.FieldAddr)
					if !isFA {
						break
					}
					if fa.Field != 0 {
						ok = false
					}
					v = fa.X
				}
				if v != ssa.Value(fn.Params[0]) {
					ok = false
				}
			}
		}
		if !ok {
			e.toolErrors = append(e.toolErrors, "RR.Header implementation "+name+" does not return the address of its first field; the heap model for rr.Header() is invalid")
		}
	}
}

func (e *Engine) lemma(name string) *Lemma {
	for _, l := range e.cs.Lemmas {
		if l.Name == name {
			return l
		}
	}
	return nil
}

// lemmaCtx builds the proof obligation of a lemma: its parameters are arbitrary, spec functions are defined.
func (e *Engine) lemmaCtx(l *Lemma) (fc *FnCtx, err error) {
	fc = e.newFnCtx(nil, nil)
	fc.name = "lemma " + l.Name
	defer func() {
		if r := recover(); r != nil {
			if ve, ok := r.(vcError); ok {
				err = fmt.Errorf("%s", ve.msg)
				return
			}
			panic(r)
		}
	}()
	fc.declare("zeroarr", SArr)
	fc.assertGlobal("(= zeroarr ((as const (Array Int Int)) 0))")
	fc.entry = HeapState{m: map[string]string{}}
	fc.cur = fc.entry.clone()
	fc.curReach = "true"
	bound := map[string]Val{}
	for _, p := range l.Params {
		switch p.Type {
		case "seq", "string":
			a, o, n := fc.fresh("l."+p.Name+".arr", SArr), fc.fresh("l."+p.Name+".off", SInt), fc.fresh("l."+p.Name+".len", SInt)
			fc.assert(fmt.Sprintf("(and (<= 0 %s) (<= 0 %s))", o, n))
			bound[p.Name] = Val{K: KStr, T: types.Typ[types.String], C: []string{a, o, n}}
			fc.inputs = append(fc.inputs, o, n)
		case "bool":
			b := fc.fresh("l."+p.Name, SBool)
			bound[p.Name] = boolVal(b)
		default:
			x := fc.fresh("l."+p.Name, SInt)
			bound[p.Name] = intVal(x)
			fc.inputs = append(fc.inputs, x)
		}
	}
	env := &Env{fc: fc, heap: &fc.entry, old: &fc.entry, bound: bound, lookup: func(string) (Val, bool) { return Val{}, false }}
	if l.Induc != "" {
		// well-founded induction on the non-negative integer measure `induct <expr> over <vars>`:
		// assume the statement for all values of the listed variables with 0 <= measure' < measure
		// (if the measure is negative the hypothesis is empty and the statement is proved outright)
		me, perr := parseExpr(l.Induc)
		if perr != nil {
			fc.fail("induct: %v", perr)
		}
		general := l.General
		if id, ok := me.(*EIdent); ok && len(general) == 0 {
			general = []string{id.Name}
		}
		b2 := map[string]Val{}
		var qs []string
		for _, p := range l.Params {
			if !inList(general, p.Name) {
				b2[p.Name] = bound[p.Name]
				continue
			}
			switch p.Type {
			case "seq", "string":
				fc.fail("induct: cannot generalise the sequence parameter %s", p.Name)
			case "bool":
				fc.nfresh++
				n := fmt.Sprintf("ih!q%d", fc.nfresh)
				qs = append(qs, fmt.Sprintf("(%s Bool)", n))
				b2[p.Name] = boolVal(n)
			default:
				fc.nfresh++
				n := fmt.Sprintf("ih!q%d", fc.nfresh)
				qs = append(qs, fmt.Sprintf("(%s Int)", n))
				b2[p.Name] = intVal(n)
			}
		}
		env2 := &Env{fc: fc, heap: &fc.entry, old: &fc.entry, bound: b2, lookup: func(string) (Val, bool) { return Val{}, false }}
		m1 := fc.evalExpr(me, env).S()
		m2 := fc.evalExpr(me, env2).S()
		ih := fc.evalBool(l.C.E, env2)
		fc.assert(fmt.Sprintf("(forall (%s) (=> (and (<= 0 %s) (< %s %s)) %s))", strings.Join(qs, " "), m2, m2, m1, ih))
	}
	f := fc.evalBool(l.C.E, env)
	ob := fc.oblige("lemma", l.Name, f, 0, &l.C)
	ob.Name = "lemma " + l.Name
	fc.finalize()
	return fc, nil
}

// useLemmas adds the lemmas a contract cites as assumptions: `use name` (universally quantified) or
// `use name(args)` (instantiated at entry values).
func (fc *FnCtx) useLemmas() {
	if fc.con == nil {
		return
	}
	for _, u := range fc.con.Uses {
		name := u
		var argSrc string
		if i := strings.Index(u, "("); i >= 0 && strings.HasSuffix(u, ")") {
			name, argSrc = strings.TrimSpace(u[:i]), u[i+1:len(u)-1]
		}
		l := fc.e.lemma(name)
		if l == nil {
			fc.fail("use: unknown lemma %q", name)
		}
		fc.lemmasUsed = append(fc.lemmasUsed, name)
		bound := map[string]Val{}
		if argSrc != "" {
			ce, err := parseExpr("f(" + argSrc + ")")
			if err != nil {
				fc.fail("use %s: %v", u, err)
			}
			args := ce.(*ECall).Args
			if len(args) != len(l.Params) {
				fc.fail("use %s: %d arguments expected", name, len(l.Params))
			}
			env := fc.entryEnv()
			for i, p := range l.Params {
				v := fc.evalExpr(args[i], env)
				if p.Type == "seq" || p.Type == "string" {
					a, o, n := fc.seqOf(v, &fc.entry)
					v = Val{K: KStr, T: types.Typ[types.String], C: []string{a, o, n}}
				}
				bound[p.Name] = v
			}
			env2 := &Env{fc: fc, heap: &fc.entry, old: &fc.entry, bound: bound, lookup: func(string) (Val, bool) { return Val{}, false }}
			fc.addLemmaAssert(fc.evalBool(l.C.E, env2))
			continue
		}
		var qs []string
		for _, p := range l.Params {
			switch p.Type {
			case "seq", "string":
				fc.nfresh++
				a, o, n := fmt.Sprintf("q%d.arr", fc.nfresh), fmt.Sprintf("q%d.off", fc.nfresh), fmt.Sprintf("q%d.len", fc.nfresh)
				qs = append(qs, fmt.Sprintf("(%s %s) (%s Int) (%s Int)", a, SArr, o, n))
				bound[p.Name] = Val{K: KStr, T: types.Typ[types.String], C: []string{a, o, n}}
			case "bool":
				fc.nfresh++
				b := fmt.Sprintf("q%d.b", fc.nfresh)
				qs = append(qs, fmt.Sprintf("(%s Bool)", b))
				bound[p.Name] = boolVal(b)
			default:
				fc.nfresh++
				x := fmt.Sprintf("q%d.i", fc.nfresh)
				qs = append(qs, fmt.Sprintf("(%s Int)", x))
				bound[p.Name] = intVal(x)
			}
		}
		env := &Env{fc: fc, heap: &fc.entry, old: &fc.entry, bound: bound, lookup: func(string) (Val, bool) { return Val{}, false }}
		body := fc.evalBool(l.C.E, env)
		if len(qs) == 0 {
			fc.addLemmaAssert(body)
		} else {
			fc.addLemmaAssert(fmt.Sprintf("(forall (%s) %s)", strings.Join(qs, " "), body))
		}
	}
}

func (fc *FnCtx) addLemmaAssert(text string) {
	seen := map[string]bool{}
	var specs []string
	for _, m := range specSymRe.FindAllString(text, -1) {
		if !seen[m] {
			seen[m] = true
			specs = append(specs, m)
		}
	}
	fc.lemmaAsserts = append(fc.lemmaAsserts, lemmaAssert{text, specs})
}

// applyLemma adds the instance of a proven lemma at the current program point.
func (fc *FnCtx) applyLemma(ce *ECall, env *Env) {
	l := fc.e.lemma(ce.Fn)
	if l == nil {
		fc.fail("apply: unknown lemma %q", ce.Fn)
	}
	if len(ce.Args) != len(l.Params) {
		fc.fail("apply %s: %d arguments expected", ce.Fn, len(l.Params))
	}
	found := false
	for _, n := range fc.lemmasUsed {
		if n == ce.Fn {
			found = true
		}
	}
	if !found {
		fc.lemmasUsed = append(fc.lemmasUsed, ce.Fn)
	}
	bound := map[string]Val{}
	for i, p := range l.Params {
		v := fc.evalExpr(ce.Args[i], env)
		if p.Type == "seq" || p.Type == "string" {
			a, o, n := fc.seqOf(v, env.heap)
			v = Val{K: KStr, T: types.Typ[types.String], C: []string{a, o, n}}
		}
		bound[p.Name] = v
	}
	env2 := &Env{fc: fc, heap: env.heap, old: &fc.entry, bound: bound, lookup: func(string) (Val, bool) { return Val{}, false }}
	fc.assumeHere(fc.evalBool(l.C.E, env2))
}

func inList(xs []string, x string) bool {
	for _, y := range xs {
		if y == x {
			return true
		}
	}
	return false
}

// String ordering: Go compares strings lexicographically by octet.  strcmp is an uninterpreted function;
// the facts that make it a total order consistent with content equality are instantiated (as ground facts)
// for the strings that are actually compared in the function.
func (fc *FnCtx) strCmp(a, b Val) string {
	fc.declareFun("strcmp", fmt.Sprintf("(%s Int Int %s Int Int) Int", SArr, SArr))
	fc.noteCmpString(a)
	fc.noteCmpString(b)
	return fmt.Sprintf("(strcmp %s %s %s %s %s %s)", a.C[0], a.C[1], a.C[2], b.C[0], b.C[1], b.C[2])
}

func (fc *FnCtx) noteCmpString(a Val) {
	key := strings.Join(a.C, "|")
	for _, x := range fc.cmpStrings {
		if strings.Join(x.C, "|") == key {
			return
		}
	}
	if len(fc.cmpStrings) >= 6 {
		return
	}
	fc.declareFun("strcmp", fmt.Sprintf("(%s Int Int %s Int Int) Int", SArr, SArr))
	cmp := func(x, y Val) string {
		return fmt.Sprintf("(strcmp %s %s %s %s %s %s)", x.C[0], x.C[1], x.C[2], y.C[0], y.C[1], y.C[2])
	}
	olds := fc.cmpStrings
	fc.cmpStrings = append(fc.cmpStrings, a)
	fc.assertGlobal(fmt.Sprintf("(= %s 0)", cmp(a, a)))
	for _, b := range olds {
		eq := fc.strEq(a, b)
		fc.assertGlobal(fmt.Sprintf("(= (= %s 0) %s)", cmp(a, b), eq))
		fc.assertGlobal(fmt.Sprintf("(= (= %s 0) %s)", cmp(b, a), eq))
		fc.assertGlobal(fmt.Sprintf("(= (< %s 0) (> %s 0))", cmp(a, b), cmp(b, a)))
		fc.assertGlobal(fmt.Sprintf("(= (> %s 0) (< %s 0))", cmp(a, b), cmp(b, a)))
	}
	all := fc.cmpStrings
	for _, x := range all {
		for _, y := range all {
			for _, z := range all {
				inv := 0
				for _, w := range []Val{x, y, z} {
					if strings.Join(w.C, "|") == key {
						inv++
					}
				}
				if inv == 0 {
					continue
				}
				fc.assertGlobal(fmt.Sprintf("(=> (and (<= %s 0) (<= %s 0)) (<= %s 0))", cmp(x, y), cmp(y, z), cmp(x, z)))
				fc.assertGlobal(fmt.Sprintf("(=> (and (< %s 0) (<= %s 0)) (< %s 0))", cmp(x, y), cmp(y, z), cmp(x, z)))
				fc.assertGlobal(fmt.Sprintf("(=> (and (<= %s 0) (< %s 0)) (< %s 0))", cmp(x, y), cmp(y, z), cmp(x, z)))
			}
		}
	}
}

// callResult finds the value of the latest call to the named function dominating the current point.
func (fc *FnCtx) callResult(name string) (Val, bool) {
	best := fc.latestCall(name)
	if best == nil {
		return Val{}, false
	}
	return fc.vals[best], true
}

// callArg: the k-th argument (receiver excluded for interface calls) of the latest dominating call to name.
func (fc *FnCtx) callArg(name string, k int) (Val, bool) {
	best := fc.latestCall(name)
	if best == nil || k < 0 || k >= len(best.Call.Args) {
		return Val{}, false
	}
	return fc.val(best.Call.Args[k]), true
}

func (fc *FnCtx) latestCall(name string) *ssa.Call {
	var best *ssa.Call
	for _, b := range fc.fn.Blocks {
		if b != fc.curBlock && !b.Dominates(fc.curBlock) {
			continue
		}
		for i, in := range b.Instrs {
			c, ok := in.(*ssa.Call)
			if !ok {
				continue
			}
			if b == fc.curBlock && i >= fc.curIdx {
				continue
			}
			if c.Call.IsInvoke() {
				if c.Call.Method.Name() != name {
					continue
				}
			} else {
				f, ok := c.Call.Value.(*ssa.Function)
				if !ok || (fnName(f) != name && f.Name() != name) {
					continue
				}
			}
			if _, done := fc.vals[c]; !done {
				continue
			}
			if best == nil || best.Block().Dominates(b) {
				best = c
			}
		}
	}
	return best
}

// checkFrame: a declared frame (pure / modifies / writes) of a function under contract is verified
// against the heaps its body (and, transitively, its callees' frames) may modify in pre-existing objects.
func (fc *FnCtx) checkFrame() {
	con := fc.con
	if con == nil || !con.HasMod || con.Kind != "func" || fc.fn == nil {
		return
	}
	declared := map[string]bool{}
	for _, h := range con.Modifies {
		if i := strings.Index(h, "@"); i >= 0 {
			h = h[:i]
		}
		declared[h] = true
	}
	for _, w := range con.Writes {
		for _, p := range fc.fn.Params {
			if p.Name() == w {
				if sl, ok := p.Type().Underlying().(*types.Slice); ok {
					addTypeHeaps("A."+typeName(sl.Elem()), sl.Elem(), declared)
				}
			}
		}
	}
	var extra []string
	for h := range fc.e.inferredMods(fc.fn) {
		if !declared[h] {
			extra = append(extra, h)
		}
	}
	sort.Strings(extra)
	// `writes p` opens the element heap of p's type; a store in this body into a slice that is plainly somebody
	// else's - a field of an object reached from a parameter, or a slice parameter the frame does not name - is
	// outside the frame all the same
	if len(con.Writes) > 0 {
		named := map[string]bool{}
		for _, w := range con.Writes {
			named[w] = true
		}
		extra = append(extra, foreignStores(fc.fn, named)...)
	}
	save := fc.curReach
	fc.curReach = "true"
	cond := "true"
	src := "declared frame: " + strings.Join(append(append([]string{}, con.Modifies...), con.Writes...), " ")
	if len(extra) > 0 {
		cond = "false"
		src += "; the body may also modify " + strings.Join(extra, " ")
	}
	ob := &Obligation{Fn: fc.name, Name: fc.name + "#frame.modifies", Kind: "frame", Cond: cond, Guard: "true", Prefix: 0, Pos: fc.fn.Pos(), fc: fc, Src: src}
	if cond == "false" {
		ob.Status = "failed"
		ob.Solver = "syntactic frame analysis"
	}
	fc.obls = append(fc.obls, ob)
	fc.curReach = save
}

// Path-sensitive call results.  callres("F") normally denotes the result of the latest call to F that
// dominates the point of use.  When no call dominates (the call sits in a branch), the result of the latest
// call executed on the current path is kept in a pseudo heap cell "$cr.F.k" (merged at joins like any heap),
// together with the flag "$called.F"; called("F") tells whether a call to F happened on this path.
var callresRe = regexp.MustCompile(`call(?:res|ed)\("([^"]+)"`)

func (fc *FnCtx) trackedCalls() map[string]bool {
	if fc.tracked != nil {
		return fc.tracked
	}
	fc.tracked = map[string]bool{}
	if fc.con == nil {
		return fc.tracked
	}
	scan := func(cls []Clause) {
		for _, c := range cls {
			for _, m := range callresRe.FindAllStringSubmatch(c.Src, -1) {
				fc.tracked[m[1]] = true
			}
		}
	}
	scan(fc.con.Ensures)
	scan(fc.con.Exits)
	for _, a := range fc.con.Asserts {
		scan([]Clause{a.C})
	}
	for _, a := range fc.con.CallSites {
		scan([]Clause{a.C})
	}
	return fc.tracked
}

func callName(c *ssa.Call) []string { return callNameCommon(&c.Call) }

func callNameCommon(cc *ssa.CallCommon) []string {
	if cc.IsInvoke() {
		return []string{cc.Method.Name()}
	}
	if f, ok := cc.Value.(*ssa.Function); ok {
		return []string{fnName(f), f.Name()}
	}
	if b, ok := cc.Value.(*ssa.Builtin); ok && b.Name() == "copy" {
		return []string{"copy"} // call-site clauses may pin what a copy reads and writes
	}
	// a call through a function-valued struct field (srv.MsgInvalidFunc(m, err)) goes by the field's name
	switch v := cc.Value.(type) {
	case *ssa.UnOp:
		if fv, ok := v.X.(*ssa.FreeVar); ok && v.Op == token.MUL {
			// a variable captured by reference: the call goes by the variable's name
			return []string{fv.Name()}
		}
		if fa, ok := v.X.(*ssa.FieldAddr); ok && v.Op == token.MUL {
			if st, ok := derefType(fa.X.Type()).Underlying().(*types.Struct); ok {
				return []string{st.Field(fa.Field).Name()}
			}
		}
	case *ssa.Field:
		if st, ok := v.X.Type().Underlying().(*types.Struct); ok {
			return []string{st.Field(v.Field).Name()}
		}
	case *ssa.FreeVar:
		// a call through a function value captured by a closure goes by the captured variable's name
		return []string{v.Name()}
	case *ssa.Parameter:
		return []string{v.Name()}
	}
	return nil
}

func (fc *FnCtx) initCallFlags() {
	// $sends: the number of channel sends executed so far (contract builtin sends())
	fc.heapSort["$sends"] = SInt
	fc.touched["$sends"] = true
	fc.entry.m["$sends"] = "0"
	for n := range fc.trackedCalls() {
		fc.heapSort["$called."+n] = SBool
		fc.touched["$called."+n] = true
		fc.entry.m["$called."+n] = "false"
	}
}

func (fc *FnCtx) recordCallRes(c *ssa.Call) {
	tr := fc.trackedCalls()
	if len(tr) == 0 {
		return
	}
	for _, n := range callName(c) {
		if !tr[n] {
			continue
		}
		v, ok := fc.vals[c]
		if !ok {
			continue
		}
		sorts := sortsOf(c.Type())
		if len(sorts) != len(v.C) {
			continue
		}
		for k, t := range v.C {
			hn := fmt.Sprintf("$cr.%s.%d", n, k)
			fc.heapSort[hn] = sorts[k]
			fc.touched[hn] = true
			fc.cur.m[hn] = t
		}
		fc.crType[n] = c.Type()
		fc.cur.m["$called."+n] = "true"
	}
}

// pathCallRes: the result of the latest call to name on the current path (unconstrained if none happened).
func (fc *FnCtx) pathCallRes(name string, h *HeapState) (Val, bool) {
	t, ok := fc.crType[name]
	if !ok {
		return Val{}, false
	}
	sorts := sortsOf(t)
	var comps []string
	for k := range sorts {
		comps = append(comps, fc.getHeapTerm(h, fmt.Sprintf("$cr.%s.%d", name, k), sorts[k]))
	}
	return mkVal(t, comps), true
}

// foreignStores: element stores (x[i] = v, copy(x, ...)) of fn whose target slice is rooted at a field of an object
// reached from a parameter, or at a slice parameter not named in the frame.  Roots that are local (make, append, call
// results) or unclear are not reported.
func foreignStores(fn *ssa.Function, named map[string]bool) []string {
	var root func(v ssa.Value, depth int) string
	root = func(v ssa.Value, depth int) string {
		if depth > 12 {
			return ""
		}
		switch x := v.(type) {
		case *ssa.Slice:
			return root(x.X, depth+1)
		case *ssa.ChangeType:
			return root(x.X, depth+1)
		case *ssa.Convert:
			return root(x.X, depth+1)
		case *ssa.Parameter:
			if _, ok := x.Type().Underlying().(*types.Slice); ok && !named[x.Name()] {
				return "parameter " + x.Name()
			}
			return ""
		case *ssa.UnOp:
			if x.Op != token.MUL {
				return ""
			}
			// load of a field (chain) of an object reached from a parameter
			a := x.X
			path := ""
			for i := 0; i < 6; i++ {
				fa, ok := a.(*ssa.FieldAddr)
				if !ok {
					break
				}
				if st, ok := derefType(fa.X.Type()).Underlying().(*types.Struct); ok {
					path = "." + st.Field(fa.Field).Name() + path
				}
				a = fa.X
			}
			if path == "" {
				return ""
			}
			if pr, ok := a.(*ssa.Parameter); ok {
				return pr.Name() + path
			}
			return ""
		}
		return ""
	}
	seen := map[string]bool{}
	var out []string
	add := func(r string) {
		if r != "" && !seen[r] {
			seen[r] = true
			out = append(out, "the elements of "+r)
		}
	}
	for _, b := range fn.Blocks {
		for _, in := range b.Instrs {
			switch x := in.(type) {
			case *ssa.Store:
				if ia, ok := x.Addr.(*ssa.IndexAddr); ok {
					if _, isSl := ia.X.Type().Underlying().(*types.Slice); isSl {
						add(root(ia.X, 0))
					}
				}
			case *ssa.Call:
				if bi, ok := x.Call.Value.(*ssa.Builtin); ok && bi.Name() == "copy" && len(x.Call.Args) == 2 {
					add(root(x.Call.Args[0], 0))
				}
			}
		}
	}
	sort.Strings(out)
	return out
}
