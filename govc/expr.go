package main

// Contract expression language: Go expression syntax plus
//   a ==> b, a <==> b, c ? a : b, old(e), forall i in lo..hi :: e (lo <= i < hi), exists ...

import (
	"fmt"
	"strconv"
	"strings"
)

type Expr interface{}

type ELit struct {
	Kind string // int bool nil string
	Val  string
}
type EIdent struct{ Name string }
type ECall struct {
	Fn   string
	Args []Expr
}
type EIndex struct{ X, I Expr }
type ESlice struct{ X, Lo, Hi Expr }
type EField struct {
	X Expr
	F string
}
type EUn struct {
	Op string
	X  Expr
}
type EBin struct {
	Op   string
	L, R Expr
}
type ECond struct{ C, A, B Expr }
type EQuant struct {
	Forall bool
	Var    string
	Lo, Hi Expr
	Body   Expr
}

type tok struct {
	k string // id num str op eof
	s string
}

func lexExpr(src string) ([]tok, error) {
	var toks []tok
	i := 0
	for i < len(src) {
		c := src[i]
		switch {
		case c == ' ' || c == '\t':
			i++
		case c >= '0' && c <= '9':
			j := i
			for j < len(src) && (isAlnum(src[j])) {
				j++
			}
			toks = append(toks, tok{"num", src[i:j]})
			i = j
		case isAlpha(c):
			j := i
			for j < len(src) && isAlnum(src[j]) {
				j++
			}
			toks = append(toks, tok{"id", src[i:j]})
			i = j
		case c == '"':
			j := i + 1
			for j < len(src) && src[j] != '"' {
				if src[j] == '\\' {
					j++
				}
				j++
			}
			if j >= len(src) {
				return nil, fmt.Errorf("unterminated string")
			}
			s, err := strconv.Unquote(src[i : j+1])
			if err != nil {
				return nil, err
			}
			toks = append(toks, tok{"str", s})
			i = j + 1
		case c == '\'':
			j := i + 1
			for j < len(src) && src[j] != '\'' {
				if src[j] == '\\' {
					j++
				}
				j++
			}
			if j >= len(src) {
				return nil, fmt.Errorf("unterminated char")
			}
			r, _, _, err := strconv.UnquoteChar(src[i+1:j], '\'')
			if err != nil {
				return nil, err
			}
			toks = append(toks, tok{"num", strconv.Itoa(int(r))})
			i = j + 1
		default:
			ops := []string{"<==>", "==>", "&&", "||", "==", "!=", "<=", ">=", "<<", ">>", "&^", "::", "..",
				"+", "-", "*", "/", "%", "<", ">", "!", "(", ")", "[", "]", ":", ",", "?", ".", "&", "|", "^"}
			found := false
			for _, op := range ops {
				if strings.HasPrefix(src[i:], op) {
					toks = append(toks, tok{"op", op})
					i += len(op)
					found = true
					break
				}
			}
			if !found {
				return nil, fmt.Errorf("unexpected character %q at %d in %q", c, i, src)
			}
		}
	}
	toks = append(toks, tok{"eof", ""})
	return toks, nil
}

func isAlpha(c byte) bool { return c == '_' || (c >= 'a' && c <= 'z') || (c >= 'A' && c <= 'Z') }
func isAlnum(c byte) bool { return isAlpha(c) || (c >= '0' && c <= '9') }

type parser struct {
	toks []tok
	p    int
	src  string
}

func parseExpr(src string) (e Expr, err error) {
	toks, err := lexExpr(src)
	if err != nil {
		return nil, err
	}
	ps := &parser{toks: toks, src: src}
	defer func() {
		if r := recover(); r != nil {
			err = fmt.Errorf("parse error in %q: %v", src, r)
		}
	}()
	e = ps.expr(-2)
	if ps.peek().k != "eof" {
		panic(fmt.Sprintf("trailing tokens at %q", ps.peek().s))
	}
	return e, nil
}

func (p *parser) peek() tok { return p.toks[p.p] }
func (p *parser) next() tok { t := p.toks[p.p]; p.p++; return t }
func (p *parser) isOp(s string) bool {
	t := p.peek()
	return t.k == "op" && t.s == s
}
func (p *parser) expect(s string) {
	t := p.next()
	if t.k != "op" || t.s != s {
		panic(fmt.Sprintf("expected %q, got %q", s, t.s))
	}
}

var binPrec = map[string]int{
	"<==>": -2, "==>": -1, "?": 0,
	"||": 1, "&&": 2,
	"==": 3, "!=": 3, "<": 3, "<=": 3, ">": 3, ">=": 3,
	"+": 4, "-": 4, "|": 4, "^": 4,
	"*": 5, "/": 5, "%": 5, "<<": 5, ">>": 5, "&": 5, "&^": 5,
}

func (p *parser) expr(minPrec int) Expr {
	if t := p.peek(); t.k == "id" && (t.s == "forall" || t.s == "exists") {
		p.next()
		v := p.next()
		if v.k != "id" {
			panic("quantifier variable expected")
		}
		in := p.next()
		if in.k != "id" || in.s != "in" {
			panic("'in' expected")
		}
		lo := p.expr(4)
		p.expect("..")
		hi := p.expr(4)
		p.expect("::")
		body := p.expr(-2)
		return &EQuant{Forall: t.s == "forall", Var: v.s, Lo: lo, Hi: hi, Body: body}
	}
	l := p.unary()
	for {
		t := p.peek()
		if t.k != "op" {
			return l
		}
		prec, ok := binPrec[t.s]
		if !ok || prec < minPrec {
			return l
		}
		p.next()
		switch t.s {
		case "?":
			a := p.expr(0)
			p.expect(":")
			b := p.expr(0)
			l = &ECond{l, a, b}
		case "==>":
			r := p.expr(prec) // right assoc
			l = &EBin{"==>", l, r}
		default:
			r := p.expr(prec + 1)
			l = &EBin{t.s, l, r}
		}
	}
}

func (p *parser) unary() Expr {
	t := p.peek()
	if t.k == "op" && (t.s == "!" || t.s == "-") {
		p.next()
		return &EUn{t.s, p.unary()}
	}
	return p.postfix(p.primary())
}

func (p *parser) primary() Expr {
	t := p.next()
	switch t.k {
	case "num":
		v, err := strconv.ParseInt(t.s, 0, 64)
		if err != nil {
			u, err2 := strconv.ParseUint(t.s, 0, 64)
			if err2 != nil {
				panic(err)
			}
			return &ELit{"int", strconv.FormatUint(u, 10)}
		}
		return &ELit{"int", strconv.FormatInt(v, 10)}
	case "str":
		return &ELit{"string", t.s}
	case "id":
		switch t.s {
		case "true", "false":
			return &ELit{"bool", t.s}
		case "nil":
			return &ELit{"nil", ""}
		}
		if p.isOp("(") {
			p.next()
			var args []Expr
			for !p.isOp(")") {
				args = append(args, p.expr(-2))
				if p.isOp(",") {
					p.next()
				}
			}
			p.expect(")")
			return &ECall{t.s, args}
		}
		return &EIdent{t.s}
	case "op":
		if t.s == "(" {
			e := p.expr(-2)
			p.expect(")")
			return e
		}
	}
	panic(fmt.Sprintf("unexpected token %q", t.s))
}

func (p *parser) postfix(e Expr) Expr {
	for {
		switch {
		case p.isOp("["):
			p.next()
			var lo, hi Expr
			if !p.isOp(":") {
				lo = p.expr(-2)
			}
			if p.isOp(":") {
				p.next()
				if !p.isOp("]") {
					hi = p.expr(-2)
				}
				p.expect("]")
				e = &ESlice{e, lo, hi}
			} else {
				p.expect("]")
				e = &EIndex{e, lo}
			}
		case p.isOp("."):
			p.next()
			f := p.next()
			if f.k != "id" {
				panic("field name expected")
			}
			// qualified call pkg.Fn(...)
			if id, ok := e.(*EIdent); ok && p.isOp("(") {
				p.next()
				var args []Expr
				for !p.isOp(")") {
					args = append(args, p.expr(-2))
					if p.isOp(",") {
						p.next()
					}
				}
				p.expect(")")
				e = &ECall{id.Name + "." + f.s, args}
			} else {
				e = &EField{e, f.s}
			}
		default:
			return e
		}
	}
}
