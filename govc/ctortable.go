package main

// Constructor table (TypeToRR): UnpackRRWithHeader, the zone parser and the message helpers create the record for a
// type code by calling the function value stored under that code.  What such a call returns used to be assumed
// (`assume rr != nil`, "calls through function values only allocate").  It is decided here instead, on the SSA of
// the package initialiser: every entry `TypeX: func() RR { return new(T) }` of the map literal has a body that only
// allocates a T and boxes the pointer, and T is the schema type whose code is the key; every schema type with a
// code of its own has an entry.  The engine then gives the result of a call through `TypeToRR[k]` the dynamic type
// the table prescribes for k (typeOfCode below).  Entries added at run time by PrivateHandle are outside the literal:
// its constructor closure is under its own contract (PrivateHandle$1), and registering a private type under the
// code of a standard type is listed as an assumption of every function that relies on the table.

import (
	"fmt"
	"go/types"
	"sort"
	"strings"

	"golang.org/x/tools/go/ssa"
)

// constructorTable: code -> type name T for every entry of the TypeToRR literal that has the shape new(T); problems
// are returned as text.
func (e *Engine) constructorTable() (map[int]string, []string) {
	out := map[int]string{}
	var bad []string
	for n, fn := range e.funcs {
		if fn == nil || fn.Pkg == nil || fn.Pkg.Pkg.Path() != dnsPath || !strings.HasPrefix(n, "init") {
			continue
		}
		for _, b := range fn.Blocks {
			for _, in := range b.Instrs {
				x, ok := in.(*ssa.MapUpdate)
				if !ok {
					continue
				}
				mm, ok := x.Map.(*ssa.MakeMap)
				if !ok || mm.Referrers() == nil {
					continue
				}
				isTable := false
				for _, r := range *mm.Referrers() {
					if st, ok := r.(*ssa.Store); ok {
						if gl, ok := st.Addr.(*ssa.Global); ok && gl.Name() == "TypeToRR" {
							isTable = true
						}
					}
				}
				if !isTable {
					continue
				}
				kc, ok := x.Key.(*ssa.Const)
				if !ok || kc.Value == nil {
					bad = append(bad, "an entry with a key that is not a constant")
					continue
				}
				code := int(kc.Int64())
				var f *ssa.Function
				switch v := x.Value.(type) {
				case *ssa.Function:
					f = v
				case *ssa.MakeClosure:
					if len(v.Bindings) == 0 {
						f, _ = v.Fn.(*ssa.Function)
					}
				}
				if f == nil {
					bad = append(bad, fmt.Sprintf("code %d: the entry is not a function literal", code))
					continue
				}
				t := constructorOf(f)
				if t == "" {
					bad = append(bad, fmt.Sprintf("code %d: the constructor is not `return new(T)`", code))
					continue
				}
				if _, dup := out[code]; dup {
					bad = append(bad, fmt.Sprintf("code %d: two entries", code))
				}
				out[code] = t
			}
		}
	}
	return out, bad
}

// constructorOf: f is `func() RR { return new(T) }` - one block: heap Alloc of T, MakeInterface, Return
func constructorOf(f *ssa.Function) string {
	if len(f.Blocks) != 1 || len(f.Params) != 0 || len(f.FreeVars) != 0 {
		return ""
	}
	ins := f.Blocks[0].Instrs
	var real []ssa.Instruction
	for _, in := range ins {
		if _, dbg := in.(*ssa.DebugRef); dbg {
			continue
		}
		real = append(real, in)
	}
	if len(real) != 3 {
		return ""
	}
	al, ok := real[0].(*ssa.Alloc)
	if !ok || !al.Heap {
		return ""
	}
	mi, ok := real[1].(*ssa.MakeInterface)
	if !ok || mi.X != al {
		return ""
	}
	rt, ok := real[2].(*ssa.Return)
	if !ok || len(rt.Results) != 1 || rt.Results[0] != mi {
		return ""
	}
	pt, ok := al.Type().(*types.Pointer)
	if !ok {
		return ""
	}
	nt, ok := pt.Elem().(*types.Named)
	if !ok || nt.Obj().Pkg() == nil || nt.Obj().Pkg().Path() != dnsPath {
		return ""
	}
	return nt.Obj().Name()
}

func (e *Engine) constructorTableObligations() []*Obligation {
	table, bad := e.constructorTable()
	byCode := map[int]string{}
	for n, st := range e.cs.Schema {
		if st.Code > 0 {
			byCode[st.Code] = n
		}
	}
	var codes []int
	for c := range byCode {
		codes = append(codes, c)
	}
	sort.Ints(codes)
	for _, c := range codes {
		if got, ok := table[c]; !ok {
			bad = append(bad, fmt.Sprintf("code %d (%s) has no constructor", c, byCode[c]))
		} else if got != byCode[c] {
			bad = append(bad, fmt.Sprintf("code %d constructs *%s, the schema says *%s", c, got, byCode[c]))
		}
	}
	var extra []int
	for c := range table {
		if _, ok := byCode[c]; !ok {
			extra = append(extra, c)
		}
	}
	sort.Ints(extra)
	for _, c := range extra {
		bad = append(bad, fmt.Sprintf("code %d constructs *%s but has no schema line", c, table[c]))
	}
	ob := &Obligation{Fn: "UnpackRRWithHeader", Name: "UnpackRRWithHeader#table.constructors", Kind: "layout", Solver: "structural matcher (SSA data flow)"}
	ob.Src = fmt.Sprintf("every entry of TypeToRR is `func() RR { return new(T) }` with T the schema type of the key's code (%d entries)", len(table))
	ob.Clause = &Clause{Label: "table.constructors", Src: ob.Src}
	if fn := e.funcs["UnpackRRWithHeader"]; fn != nil {
		ob.Pos = fn.Pos()
	}
	if len(bad) == 0 && len(table) > 0 {
		ob.Status = "proved"
	} else {
		if len(table) == 0 {
			bad = append(bad, "the TypeToRR literal was not found")
		}
		ob.Status = "failed"
		ob.Output = strings.Join(bad, "; ")
		ob.Src += " -- " + ob.Output
	}
	return []*Obligation{ob}
}

// typeOfCode: SMT formula "the interface value with type tag `tag` has the dynamic type the schema prescribes for
// the type code `code`" (a conjunction of implications, one per schema type with a code)
func (e *Engine) typeOfCode(tag, code string) string {
	var names []string
	for n, st := range e.cs.Schema {
		if st.Code > 0 {
			names = append(names, n)
		}
	}
	sortStrings(names)
	var cs []string
	for _, n := range names {
		t := e.lookupType("*" + n)
		if t == nil {
			continue
		}
		cs = append(cs, fmt.Sprintf("(=> (= %s %d) (= %s %d))", code, e.cs.Schema[n].Code, tag, e.typeTag(t)))
	}
	if len(cs) == 0 {
		return "true"
	}
	return "(and " + strings.Join(cs, " ") + ")"
}

// tableLookupKey: v is the function value read from TypeToRR (directly or through a comma-ok lookup) - the key
func tableLookupKey(v ssa.Value) (ssa.Value, bool) {
	if ex, ok := v.(*ssa.Extract); ok && ex.Index == 0 {
		v = ex.Tuple
	}
	lk, ok := v.(*ssa.Lookup)
	if !ok {
		return nil, false
	}
	ld, ok := lk.X.(*ssa.UnOp)
	if !ok {
		return nil, false
	}
	gl, ok := ld.X.(*ssa.Global)
	if !ok || gl.Name() != "TypeToRR" || gl.Pkg == nil || gl.Pkg.Pkg.Path() != dnsPath {
		return nil, false
	}
	return lk.Index, true
}
