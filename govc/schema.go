package main

// Record schema (see /repo/verif_contracts_schema.go) and the structural layout matcher for the generated
// pack/unpack functions of zmsg.go.
//
// The layout obligation of (*T).pack says: on the (unique) successful path the function calls, in RDATA
// order, exactly the field codecs the schema prescribes, each with the record's own field as value, the
// caller's buffer, the offset returned by the previous codec (the caller's offset for the first), the
// caller's compression map, and `compress` only for cname fields (constant false for name fields); and it
// returns the last codec's offset.  Together with the codec contracts (what each codec writes at
// [off, off1)) this is the RFC layout.  (*T).unpack is the mirror image: results are stored into the
// schema's fields in order, early success returns are allowed only between fields when off == len(msg).
// The matching is structural over the SSA of the real functions (data flow, not text), decided without a
// solver; each mismatch is reported as a failed obligation `(*T).pack#layout` / `(*T).unpack#layout`.

import (
	"fmt"
	"go/constant"
	"go/token"
	"go/types"
	"strings"

	"golang.org/x/tools/go/ssa"
)

type SchemaField struct {
	GoFields []string
	Codec    string
	Arg      string // length field or selector expression
	Flags    []string
}

type SchemaType struct {
	Name   string
	Code   int
	Alias  string
	Fields []SchemaField
	Line   int
	File   string
	Tags   []string
}

func parseSchemaLine(rest, path string, line int) (*SchemaType, error) {
	f := strings.Fields(rest)
	if len(f) < 2 {
		return nil, fmt.Errorf("schema <Type> <code> fields...")
	}
	st := &SchemaType{Name: f[0], File: path, Line: line}
	fmt.Sscan(f[1], &st.Code)
	for _, tok := range f[2:] {
		if strings.HasPrefix(tok, "=") {
			st.Alias = tok[1:]
			continue
		}
		i := strings.Index(tok, ":")
		if i < 0 {
			return nil, fmt.Errorf("schema field %q", tok)
		}
		sf := SchemaField{GoFields: strings.Split(tok[:i], ",")}
		c := tok[i+1:]
		if j := strings.Index(c, "["); j >= 0 && strings.HasSuffix(c, "]") {
			sf.Flags = strings.Split(c[j+1:len(c)-1], ",")
			c = c[:j]
		}
		if j := strings.Index(c, "("); j >= 0 && strings.HasSuffix(c, ")") {
			sf.Arg = c[j+1 : len(c)-1]
			c = c[:j]
		}
		sf.Codec = c
		st.Fields = append(st.Fields, sf)
	}
	return st, nil
}

func (sf SchemaField) hasFlag(f string) bool {
	for _, x := range sf.Flags {
		if x == f {
			return true
		}
	}
	return false
}

func (cs *ContractSet) schemaFields(name string) ([]SchemaField, bool) {
	st := cs.Schema[name]
	for i := 0; st != nil && st.Alias != "" && i < 4; i++ {
		st = cs.Schema[st.Alias]
	}
	if st == nil {
		return nil, false
	}
	return st.Fields, true
}

var packHelper = map[string]string{
	"u8": "packUint8", "u16": "packUint16", "u32": "packUint32", "u48": "packUint48", "u64": "packUint64",
	"a": "packDataA", "aaaa": "packDataAAAA", "name": "packDomainName", "cname": "packDomainName",
	"str": "packString", "txts": "packStringTxt", "octet": "packStringOctet", "any": "packStringAny",
	"hex": "packStringHex", "b64": "packStringBase64", "b32": "packStringBase32", "bitmap": "packDataNsec",
	"names": "packDataDomainNames", "opts": "packDataOpt", "svcparams": "packDataSVCB", "apl": "packDataApl",
	"gateway": "packIPSECGateway", "pubname": "PackDomainName",
}

var unpackHelper = map[string]string{
	"u8": "unpackUint8", "u16": "unpackUint16", "u32": "unpackUint32", "u48": "unpackUint48", "u64": "unpackUint64",
	"a": "unpackDataA", "aaaa": "unpackDataAAAA", "name": "UnpackDomainName", "cname": "UnpackDomainName",
	"str": "unpackString", "txts": "unpackStringTxt", "octet": "unpackStringOctet", "any": "unpackStringAny",
	"hex": "unpackStringHex", "b64": "unpackStringBase64", "b32": "unpackStringBase32", "bitmap": "unpackDataNsec",
	"names": "unpackDataDomainNames", "opts": "unpackDataOpt", "svcparams": "unpackDataSVCB", "apl": "unpackDataApl",
	"gateway": "unpackIPSECGateway",
}

// ---------------------------------------------------------------------------
// paths

type ssaPath struct {
	blocks []*ssa.BasicBlock
	conds  []pathCond
}

type pathCond struct {
	cond  ssa.Value
	taken bool
}

func enumeratePaths(fn *ssa.Function, limit int) ([]ssaPath, error) {
	var out []ssaPath
	var cur []*ssa.BasicBlock
	var conds []pathCond
	onPath := map[*ssa.BasicBlock]bool{}
	var err error
	var dfs func(b *ssa.BasicBlock)
	dfs = func(b *ssa.BasicBlock) {
		if err != nil {
			return
		}
		if onPath[b] {
			err = fmt.Errorf("loop in control flow")
			return
		}
		onPath[b] = true
		cur = append(cur, b)
		if len(b.Succs) == 0 {
			if len(out) >= limit {
				err = fmt.Errorf("more than %d paths", limit)
			} else {
				out = append(out, ssaPath{append([]*ssa.BasicBlock{}, cur...), append([]pathCond{}, conds...)})
			}
		} else if ifi, ok := b.Instrs[len(b.Instrs)-1].(*ssa.If); ok {
			for k, s := range b.Succs {
				conds = append(conds, pathCond{ifi.Cond, k == 0})
				dfs(s)
				conds = conds[:len(conds)-1]
			}
		} else {
			for _, s := range b.Succs {
				dfs(s)
			}
		}
		cur = cur[:len(cur)-1]
		onPath[b] = false
	}
	dfs(fn.Blocks[0])
	return out, err
}

func pathCalls(p ssaPath) []*ssa.Call {
	var out []*ssa.Call
	for _, b := range p.blocks {
		for _, in := range b.Instrs {
			if c, ok := in.(*ssa.Call); ok {
				if _, isFn := c.Call.Value.(*ssa.Function); isFn {
					out = append(out, c)
				}
			}
		}
	}
	return out
}

// resolveOnPath follows phis along the given path to the value that actually flows.
func resolveOnPath(v ssa.Value, p ssaPath) ssa.Value {
	for depth := 0; depth < 8; depth++ {
		phi, ok := v.(*ssa.Phi)
		if !ok {
			return v
		}
		b := phi.Block()
		idx := -1
		for i, pb := range p.blocks {
			if pb == b {
				idx = i
			}
		}
		if idx <= 0 {
			return v
		}
		pred := p.blocks[idx-1]
		found := false
		for k, q := range b.Preds {
			if q == pred {
				v = phi.Edges[k]
				found = true
				break
			}
		}
		if !found {
			return v
		}
	}
	return v
}

func pathReturn(p ssaPath) *ssa.Return {
	last := p.blocks[len(p.blocks)-1]
	r, _ := last.Instrs[len(last.Instrs)-1].(*ssa.Return)
	return r
}

// fieldLoadPath: if v is a load of a (possibly embedded) field of the receiver, return the field name.
func fieldLoadPath(v ssa.Value, recv ssa.Value) (string, bool) {
	u, ok := v.(*ssa.UnOp)
	if !ok || u.Op != token.MUL {
		return "", false
	}
	return fieldAddrPath(u.X, recv)
}

func fieldAddrPath(a ssa.Value, recv ssa.Value) (string, bool) {
	fa, ok := a.(*ssa.FieldAddr)
	if !ok {
		return "", false
	}
	st := derefType(fa.X.Type()).Underlying().(*types.Struct)
	name := st.Field(fa.Field).Name()
	if fa.X == recv {
		return name, true
	}
	// embedded struct hop: rr.DS.KeyTag
	if inner, ok := fa.X.(*ssa.FieldAddr); ok {
		ist := derefType(inner.X.Type()).Underlying().(*types.Struct)
		if ist.Field(inner.Field).Embedded() {
			if _, ok := fieldAddrPath(inner, recv); ok {
				return name, true
			}
		}
	}
	return "", false
}

func isNilErrorConst(v ssa.Value) bool {
	c, ok := v.(*ssa.Const)
	return ok && c.Value == nil
}

func calleeName(c *ssa.Call) string {
	f := c.Call.Value.(*ssa.Function)
	n := f.Name()
	if f.Origin() != nil {
		n = f.Origin().Name()
	}
	return n
}

// rdlengthEnd: v is  rdStart + int(rr.Hdr.Rdlength)  where rdStart is the entry value of off
func isRdEnd(v ssa.Value, recv, offParam ssa.Value) bool {
	b, ok := v.(*ssa.BinOp)
	if !ok || b.Op != token.ADD || b.X != offParam {
		return false
	}
	cv, ok := b.Y.(*ssa.Convert)
	if !ok {
		return false
	}
	u, ok := cv.X.(*ssa.UnOp)
	if !ok || u.Op != token.MUL {
		return false
	}
	fa, ok := u.X.(*ssa.FieldAddr)
	if !ok {
		return false
	}
	st := derefType(fa.X.Type()).Underlying().(*types.Struct)
	if st.Field(fa.Field).Name() != "Rdlength" {
		return false
	}
	// fa.X is &rr.Hdr (possibly through an embedded struct)
	n, ok := fieldAddrPath(fa.X, recv)
	return ok && n == "Hdr"
}

// isSizedEnd: v is  cur + int(rr.<lenField>)
func isSizedEnd(v ssa.Value, recv, cur ssa.Value, lenField string) bool {
	b, ok := v.(*ssa.BinOp)
	if !ok || b.Op != token.ADD || b.X != cur {
		return false
	}
	cv, ok := b.Y.(*ssa.Convert)
	if !ok {
		return false
	}
	n, ok := fieldLoadPath(cv.X, recv)
	return ok && n == lenField
}

// selectorMatches: v is the gateway selector expression of the schema: `F` or `F&0x7f`
func selectorMatches(v ssa.Value, recv ssa.Value, sel string) bool {
	if i := strings.Index(sel, "&"); i >= 0 {
		b, ok := v.(*ssa.BinOp)
		if !ok || b.Op != token.AND {
			return false
		}
		n, ok := fieldLoadPath(b.X, recv)
		if !ok || n != sel[:i] {
			return false
		}
		c, ok := b.Y.(*ssa.Const)
		if !ok || c.Value == nil {
			return false
		}
		var want int64
		fmt.Sscan(sel[i+1:], &want)
		if strings.HasPrefix(sel[i+1:], "0x") {
			fmt.Sscanf(sel[i+1:], "0x%x", &want)
		}
		got, exact := constant.Int64Val(c.Value)
		return exact && got == want
	}
	n, ok := fieldLoadPath(v, recv)
	return ok && n == sel
}

// ---------------------------------------------------------------------------

type layoutResult struct {
	ok  bool
	msg string
}

func (e *Engine) checkPackLayout(fn *ssa.Function, fields []SchemaField) layoutResult {
	paths, err := enumeratePaths(fn, 4096)
	if err != nil {
		return layoutResult{false, "unrecognised shape: " + err.Error()}
	}
	recv := ssa.Value(fn.Params[0])
	var msgP, offP, compP, compressP ssa.Value
	for _, p := range fn.Params[1:] {
		switch p.Name() {
		case "msg":
			msgP = p
		case "off":
			offP = p
		case "compression":
			compP = p
		case "compress":
			compressP = p
		}
	}
	nSuccess := 0
	for _, p := range paths {
		ret := pathReturn(p)
		if ret == nil || len(ret.Results) != 2 || !isNilErrorConst(ret.Results[1]) {
			continue
		}
		nSuccess++
		calls := pathCalls(p)
		ci := 0
		cur := offP
		for fi, sf := range fields {
			helper := packHelper[sf.Codec]
			if helper == "" {
				return layoutResult{false, "schema codec " + sf.Codec + " unknown"}
			}
			if ci >= len(calls) || calleeName(calls[ci]) != helper {
				if sf.hasFlag("dash") && skippedForDash(p, recv, sf.GoFields[0]) {
					continue
				}
				got := "nothing"
				if ci < len(calls) {
					got = calleeName(calls[ci])
				}
				return layoutResult{false, fmt.Sprintf("field %d (%s:%s): expected a call to %s, found %s", fi+1, strings.Join(sf.GoFields, ","), sf.Codec, helper, got)}
			}
			c := calls[ci]
			ci++
			callee := c.Call.Value.(*ssa.Function)
			vi := 0
			for ai, a := range c.Call.Args {
				pn := ""
				if ai < len(callee.Params) {
					pn = callee.Params[ai].Name()
				}
				at := a.Type()
				switch {
				case pn == "msg":
					if a != msgP {
						return layoutResult{false, fmt.Sprintf("field %s: buffer argument is not the caller's msg", sf.GoFields[0])}
					}
				case pn == "off" || pn == "offset":
					if cur == nil {
						// serialiser without an offset parameter: the first field starts at offset 0
						cc, isC := a.(*ssa.Const)
						if !isC || cc.Value == nil || cc.Int64() != 0 {
							return layoutResult{false, fmt.Sprintf("field %s: the first field is not packed at offset 0", sf.GoFields[0])}
						}
					} else if resolveOnPath(a, p) != cur {
						return layoutResult{false, fmt.Sprintf("field %s: offset argument is not the offset returned by the previous field", sf.GoFields[0])}
					}
				case pn == "compression" && compP == nil:
					if !isNilRefConst(a) {
						return layoutResult{false, fmt.Sprintf("field %s: a digest serialiser must not use a compression map", sf.GoFields[0])}
					}
				case pn == "compression":
					if a != compP {
						return layoutResult{false, fmt.Sprintf("field %s: compression map is not the caller's", sf.GoFields[0])}
					}
				case pn == "compress":
					if sf.Codec == "cname" {
						if a != compressP {
							return layoutResult{false, fmt.Sprintf("field %s is a compressible (RFC 1035) name but is not packed with the caller's compress flag", sf.GoFields[0])}
						}
					} else {
						cc, isC := a.(*ssa.Const)
						if !isC || cc.Value == nil || constant.BoolVal(cc.Value) {
							return layoutResult{false, fmt.Sprintf("field %s must never be compressed (RFC 3597 section 4) but is not packed with compress=false", sf.GoFields[0])}
						}
					}
				case pn == "gatewayType":
					if !selectorMatches(a, recv, sf.Arg) {
						return layoutResult{false, fmt.Sprintf("field %s: gateway selector is not %s", sf.GoFields[0], sf.Arg)}
					}
				default:
					if vi >= len(sf.GoFields) {
						return layoutResult{false, fmt.Sprintf("field %s: unexpected extra argument of type %s", sf.GoFields[0], at)}
					}
					n, ok := fieldLoadPath(a, recv)
					if !ok || n != sf.GoFields[vi] {
						return layoutResult{false, fmt.Sprintf("field %d: the value packed with %s is not rr.%s", fi+1, helper, sf.GoFields[vi])}
					}
					vi++
				}
			}
			if vi != len(sf.GoFields) {
				return layoutResult{false, fmt.Sprintf("field %s: not all of its Go fields are passed to %s", sf.GoFields[0], helper)}
			}
			cur = extractOf(c, 0)
			if cur == nil {
				return layoutResult{false, fmt.Sprintf("field %s: the offset result of %s is not used", sf.GoFields[0], helper)}
			}
			if !errGuarded(c, p) {
				return layoutResult{false, fmt.Sprintf("field %s: the successful path does not go through `err == nil` after %s (an error of the field packer must end the method)", sf.GoFields[0], helper)}
			}
		}
		if ci != len(calls) {
			return layoutResult{false, fmt.Sprintf("an extra call to %s after the last schema field", calleeName(calls[ci]))}
		}
		if resolveOnPath(ret.Results[0], p) != cur {
			return layoutResult{false, "the returned offset is not the offset after the last field"}
		}
	}
	if nSuccess == 0 {
		return layoutResult{false, "no successful path"}
	}
	return layoutResult{true, ""}
}

// skippedForDash: on this path the branch `rr.F != "-"` was not taken
func skippedForDash(p ssaPath, recv ssa.Value, field string) bool {
	for _, pc := range p.conds {
		b, ok := pc.cond.(*ssa.BinOp)
		if !ok || (b.Op != token.NEQ && b.Op != token.EQL) {
			continue
		}
		n, ok := fieldLoadPath(b.X, recv)
		if !ok || n != field {
			continue
		}
		c, ok := b.Y.(*ssa.Const)
		if !ok || c.Value == nil || c.Value.Kind() != constant.String || constant.StringVal(c.Value) != "-" {
			continue
		}
		if (b.Op == token.NEQ && !pc.taken) || (b.Op == token.EQL && pc.taken) {
			return true
		}
	}
	return false
}

// errGuarded: on path p the error result of call c is tested `err != nil` in a condition of the path and the path
// goes on through the branch where it is nil (the generated code's `if err != nil { return ... }` after every field)
func errGuarded(c *ssa.Call, p ssaPath) bool {
	nres := 0
	if tu, ok := c.Type().(*types.Tuple); ok {
		nres = tu.Len()
	}
	if nres == 0 {
		return false
	}
	ev := extractOf(c, nres-1)
	if ev == nil {
		return false
	}
	for _, pc := range p.conds {
		b, ok := pc.cond.(*ssa.BinOp)
		if !ok {
			continue
		}
		var other ssa.Value
		if b.X == ev {
			other = b.Y
		} else if b.Y == ev {
			other = b.X
		} else {
			continue
		}
		if !isNilErrorConst(other) {
			continue
		}
		switch b.Op {
		case token.NEQ:
			return !pc.taken
		case token.EQL:
			return pc.taken
		}
	}
	return false
}

func extractOf(c *ssa.Call, idx int) ssa.Value {
	if c.Referrers() == nil {
		return nil
	}
	for _, r := range *c.Referrers() {
		if ex, ok := r.(*ssa.Extract); ok && ex.Index == idx {
			return ex
		}
	}
	return nil
}

func (e *Engine) checkUnpackLayout(fn *ssa.Function, fields []SchemaField) layoutResult {
	paths, err := enumeratePaths(fn, 65536)
	if err != nil {
		return layoutResult{false, "unrecognised shape: " + err.Error()}
	}
	recv := ssa.Value(fn.Params[0])
	var msgP, offP ssa.Value
	for _, p := range fn.Params[1:] {
		switch p.Name() {
		case "msg":
			msgP = p
		case "off":
			offP = p
		}
	}
	sawFull := false
	nSuccess := 0
	for _, p := range paths {
		ret := pathReturn(p)
		if ret == nil || len(ret.Results) != 2 || !isNilErrorConst(ret.Results[1]) {
			continue
		}
		nSuccess++
		calls := pathCalls(p)
		ci := 0
		cur := offP
		complete := true
		for fi, sf := range fields {
			helper := unpackHelper[sf.Codec]
			if ci >= len(calls) {
				complete = false
				break // early success return (off == len(msg)) between fields: a prefix of the layout
			}
			c := calls[ci]
			if calleeName(c) != helper {
				return layoutResult{false, fmt.Sprintf("field %d (%s:%s): expected a call to %s, found %s", fi+1, strings.Join(sf.GoFields, ","), sf.Codec, helper, calleeName(c))}
			}
			ci++
			callee := c.Call.Value.(*ssa.Function)
			for ai, a := range c.Call.Args {
				pn := ""
				if ai < len(callee.Params) {
					pn = callee.Params[ai].Name()
				}
				switch pn {
				case "msg":
					if a != msgP {
						return layoutResult{false, fmt.Sprintf("field %s: buffer argument is not the caller's msg", sf.GoFields[0])}
					}
				case "off", "off0":
					if resolveOnPath(a, p) != cur {
						return layoutResult{false, fmt.Sprintf("field %s: offset argument is not the offset returned by the previous field", sf.GoFields[0])}
					}
				case "end":
					if sf.Arg != "" {
						if !isSizedEnd(a, recv, cur, sf.Arg) {
							return layoutResult{false, fmt.Sprintf("field %s: end is not off + rr.%s", sf.GoFields[0], sf.Arg)}
						}
					} else if !isRdEnd(a, recv, offP) {
						return layoutResult{false, fmt.Sprintf("field %s: end is not rdStart + rr.Hdr.Rdlength", sf.GoFields[0])}
					}
				case "gatewayType":
					if !selectorMatches(a, recv, sf.Arg) {
						return layoutResult{false, fmt.Sprintf("field %s: gateway selector is not %s", sf.GoFields[0], sf.Arg)}
					}
				default:
					return layoutResult{false, fmt.Sprintf("field %s: unexpected argument %q of %s", sf.GoFields[0], pn, helper)}
				}
			}
			// results: the value results are stored into the schema's Go fields, in order
			for vi, gf := range sf.GoFields {
				ex := extractOf(c, vi)
				if ex == nil || !storedInto(ex, recv, gf) {
					return layoutResult{false, fmt.Sprintf("field %d: result %d of %s is not stored into rr.%s", fi+1, vi, helper, gf)}
				}
			}
			cur = extractOf(c, len(sf.GoFields))
			if cur == nil {
				return layoutResult{false, fmt.Sprintf("field %s: the offset result of %s is not used", sf.GoFields[0], helper)}
			}
			if !errGuarded(c, p) {
				return layoutResult{false, fmt.Sprintf("field %s: the successful path does not go through `err == nil` after %s (an error of the field decoder must end the method)", sf.GoFields[0], helper)}
			}
		}
		if ci != len(calls) {
			return layoutResult{false, fmt.Sprintf("an extra call to %s after the last schema field", calleeName(calls[ci]))}
		}
		if resolveOnPath(ret.Results[0], p) != cur {
			return layoutResult{false, "the returned offset is not the offset after the last field read"}
		}
		if complete {
			sawFull = true
		} else if !lastCondIsEndOfMsg(p, cur, msgP) {
			return layoutResult{false, "an early successful return that is not guarded by off == len(msg)"}
		}
	}
	if nSuccess == 0 || !sawFull {
		return layoutResult{false, "no successful path reads all schema fields"}
	}
	return layoutResult{true, ""}
}

func storedInto(v ssa.Value, recv ssa.Value, field string) bool {
	if v.Referrers() == nil {
		return false
	}
	for _, r := range *v.Referrers() {
		if st, ok := r.(*ssa.Store); ok && st.Val == v {
			if n, ok := fieldAddrPath(st.Addr, recv); ok && n == field {
				return true
			}
		}
	}
	return false
}

func lastCondIsEndOfMsg(p ssaPath, cur ssa.Value, msgP ssa.Value) bool {
	if len(p.conds) == 0 {
		return false
	}
	pc := p.conds[len(p.conds)-1]
	b, ok := pc.cond.(*ssa.BinOp)
	if !ok || b.Op != token.EQL || !pc.taken || b.X != cur {
		return false
	}
	c, ok := b.Y.(*ssa.Call)
	if !ok {
		return false
	}
	bi, ok := c.Call.Value.(*ssa.Builtin)
	return ok && bi.Name() == "len" && c.Call.Args[0] == msgP
}

// layoutObligations builds the (already decided) layout obligations for all schema types.
func (e *Engine) layoutObligations(kinds []string) []*Obligation {
	var out []*Obligation
	var names []string
	for n := range e.cs.Schema {
		names = append(names, n)
	}
	sortStrings(names)
	for _, n := range names {
		fields, ok := e.cs.schemaFields(n)
		if !ok {
			continue
		}
		for _, kind := range kinds {
			fname := "(*" + n + ")." + kind
			fn := e.funcs[fname]
			ob := &Obligation{Fn: fname, Name: fname + "#layout", Kind: "layout", Solver: "structural matcher (SSA data flow)"}
			st := e.cs.Schema[n]
			ob.Src = fmt.Sprintf("schema %s: %s", n, schemaText(fields))
			ob.Clause = &Clause{Label: "layout", Src: ob.Src, File: st.File, Line: st.Line}
			if fn == nil || len(fn.Blocks) == 0 {
				ob.Status = "failed"
				ob.Output = "function not found"
				out = append(out, ob)
				continue
			}
			var r layoutResult
			switch kind {
			case "pack":
				r = e.checkPackLayout(fn, fields)
			case "unpack":
				r = e.checkUnpackLayout(fn, fields)
			}
			if r.ok {
				ob.Status = "proved"
			} else {
				ob.Status = "failed"
				ob.Output = r.msg
				ob.Src += " -- " + r.msg
			}
			ob.Pos = fn.Pos()
			out = append(out, ob)
		}
	}
	return out
}

func schemaText(fs []SchemaField) string {
	var parts []string
	for _, f := range fs {
		s := strings.Join(f.GoFields, ",") + ":" + f.Codec
		if f.Arg != "" {
			s += "(" + f.Arg + ")"
		}
		parts = append(parts, s)
	}
	return strings.Join(parts, " ")
}

func sortStrings(xs []string) {
	for i := 1; i < len(xs); i++ {
		for j := i; j > 0 && xs[j] < xs[j-1]; j-- {
			xs[j], xs[j-1] = xs[j-1], xs[j]
		}
	}
}

// wirefmtObligations: structural layout obligations for the hand-written digest serialisers (wirefmt lines).
func (e *Engine) wirefmtObligations(prop string) []*Obligation {
	var out []*Obligation
	for _, st := range e.cs.WireFmts {
		if !hasTag(st.Tags, prop) {
			continue
		}
		fn := e.funcs[st.Name]
		ob := &Obligation{Fn: st.Name, Name: st.Name + "#layout", Kind: "layout", Solver: "structural matcher (SSA data flow)"}
		ob.Src = fmt.Sprintf("wirefmt %s: %s", st.Name, schemaText(st.Fields))
		ob.Clause = &Clause{Label: "layout", Src: ob.Src, File: st.File, Line: st.Line}
		if fn == nil || len(fn.Blocks) == 0 {
			ob.Status = "failed"
			ob.Output = "function not found"
			out = append(out, ob)
			continue
		}
		r := e.checkPackLayout(fn, st.Fields)
		if r.ok {
			ob.Status = "proved"
		} else {
			ob.Status = "failed"
			ob.Output = r.msg
			ob.Src += " -- " + r.msg
		}
		ob.Pos = fn.Pos()
		out = append(out, ob)
	}
	return out
}
