package main

// Go back end for contract expressions (used by replays: the same clause that failed as an SMT goal is
// evaluated at run time on the real function's inputs and outputs).

import (
	"fmt"
	"go/types"
	"strings"
)

const goHelpers = `
func vidx(s []byte, i int) int {
	if i < 0 || i >= len(s) {
		return 0
	}
	return int(s[i])
}

func vslice(s []byte, lo, hi int) []byte {
	if lo < 0 {
		lo = 0
	}
	if hi > len(s) {
		hi = len(s)
	}
	if lo > hi {
		return nil
	}
	return s[lo:hi]
}

func vbytesEq(a, b []byte) bool { return string(a) == string(b) }
`

type goGen struct {
	e     *Engine
	fc    *FnCtx
	specs map[string]bool
	bound map[string]string // quantifier / spec parameter name -> kind
}

func (g *goGen) identType(name string) (code string, t types.Type, ok bool) {
	sig := g.fc.fn.Signature
	for i := 0; i < sig.Results().Len(); i++ {
		rn := sig.Results().At(i).Name()
		if (rn != "" && rn != "_" && rn == name) || name == fmt.Sprintf("ret%d", i) || (name == "result" && sig.Results().Len() == 1) {
			return fmt.Sprintf("ret%d", i), sig.Results().At(i).Type(), true
		}
	}
	for i, p := range g.fc.fn.Params {
		if p.Name() == name || (name == "recv" && i == 0 && sig.Recv() != nil) {
			return p.Name(), p.Type(), true
		}
	}
	return "", nil, false
}

func (g *goGen) typed(code string, t types.Type, inOld bool, isParamSlice bool) (string, string, error) {
	switch kindOf(t) {
	case KInt:
		if isFloat(t) {
			return "", "", fmt.Errorf("float")
		}
		return "int(" + code + ")", "int", nil
	case KBool:
		return code, "bool", nil
	case KStr:
		return "[]byte(" + code + ")", "seq", nil
	case KSlice:
		if typeName(t.Underlying().(*types.Slice).Elem()) != "uint8" {
			return code, "other", nil
		}
		if inOld && isParamSlice {
			return "old_" + code, "seq", nil
		}
		return "[]byte(" + code + ")", "seq", nil
	case KIface, KPtr:
		return code, "ref", nil
	case KStruct:
		return code, "struct", nil
	}
	return code, "other", nil
}

func (g *goGen) expr(e Expr, inOld bool) (string, string, error) {
	switch x := e.(type) {
	case *ELit:
		switch x.Kind {
		case "int":
			return x.Val, "int", nil
		case "bool":
			return x.Val, "bool", nil
		case "nil":
			return "nil", "nil", nil
		case "string":
			return fmt.Sprintf("[]byte(%q)", x.Val), "seq", nil
		}
	case *EIdent:
		if k, ok := g.bound[x.Name]; ok {
			return x.Name, k, nil
		}
		if code, t, ok := g.identType(x.Name); ok {
			_, isParam := g.fc.paramLookup(x.Name)
			return g.typed(code, t, inOld, isParam)
		}
		if cv, _, ok := g.e.lookupConst(x.Name); ok {
			return cv.ExactString(), "int", nil
		}
		return "", "", fmt.Errorf("identifier %s", x.Name)
	case *EUn:
		c, k, err := g.expr(x.X, inOld)
		if err != nil {
			return "", "", err
		}
		if x.Op == "!" {
			return "!(" + c + ")", "bool", nil
		}
		return "-(" + c + ")", k, nil
	case *EBin:
		l, lk, err := g.expr(x.L, inOld)
		if err != nil {
			return "", "", err
		}
		r, rk, err := g.expr(x.R, inOld)
		if err != nil {
			return "", "", err
		}
		switch x.Op {
		case "&&", "||":
			return "(" + l + " " + x.Op + " " + r + ")", "bool", nil
		case "==>":
			return "(!(" + l + ") || (" + r + "))", "bool", nil
		case "<==>":
			return "((" + l + ") == (" + r + "))", "bool", nil
		case "==", "!=":
			if lk == "seq" && rk == "seq" {
				c := "vbytesEq(" + l + ", " + r + ")"
				if x.Op == "!=" {
					c = "!" + c
				}
				return c, "bool", nil
			}
			if lk == "seq" && rk == "nil" {
				return "(" + l + " " + x.Op + " nil)", "bool", nil
			}
			return "(" + l + " " + x.Op + " " + r + ")", "bool", nil
		case "<", "<=", ">", ">=":
			return "(" + l + " " + x.Op + " " + r + ")", "bool", nil
		case "+", "-", "*", "/", "%", "&", "|", "^", "&^":
			return "(" + l + " " + x.Op + " " + r + ")", "int", nil
		case "<<", ">>":
			return "(" + l + " " + x.Op + " uint(" + r + "))", "int", nil
		}
	case *ECond:
		c, _, err := g.expr(x.C, inOld)
		if err != nil {
			return "", "", err
		}
		a, ak, err := g.expr(x.A, inOld)
		if err != nil {
			return "", "", err
		}
		b, _, err := g.expr(x.B, inOld)
		if err != nil {
			return "", "", err
		}
		gt := "int"
		if ak == "bool" {
			gt = "bool"
		}
		return fmt.Sprintf("func() %s { if %s { return %s }; return %s }()", gt, c, a, b), ak, nil
	case *EQuant:
		lo, _, err := g.expr(x.Lo, inOld)
		if err != nil {
			return "", "", err
		}
		hi, _, err := g.expr(x.Hi, inOld)
		if err != nil {
			return "", "", err
		}
		save := g.bound
		g.bound = map[string]string{}
		for k, v := range save {
			g.bound[k] = v
		}
		g.bound[x.Var] = "int"
		body, _, err := g.expr(x.Body, inOld)
		g.bound = save
		if err != nil {
			return "", "", err
		}
		if x.Forall {
			return fmt.Sprintf("func() bool { for %s := %s; %s < %s; %s++ { if !(%s) { return false } }; return true }()", x.Var, lo, x.Var, hi, x.Var, body), "bool", nil
		}
		return fmt.Sprintf("func() bool { for %s := %s; %s < %s; %s++ { if %s { return true } }; return false }()", x.Var, lo, x.Var, hi, x.Var, body), "bool", nil
	case *EIndex:
		s, k, err := g.expr(x.X, inOld)
		if err != nil {
			return "", "", err
		}
		if k != "seq" {
			return "", "", fmt.Errorf("index of non-sequence")
		}
		i, _, err := g.expr(x.I, inOld)
		if err != nil {
			return "", "", err
		}
		return "vidx(" + s + ", " + i + ")", "int", nil
	case *ESlice:
		s, k, err := g.expr(x.X, inOld)
		if err != nil {
			return "", "", err
		}
		if k != "seq" {
			return "", "", fmt.Errorf("slice of non-sequence")
		}
		lo, hi := "0", "len("+s+")"
		if x.Lo != nil {
			lo, _, err = g.expr(x.Lo, inOld)
			if err != nil {
				return "", "", err
			}
		}
		if x.Hi != nil {
			hi, _, err = g.expr(x.Hi, inOld)
			if err != nil {
				return "", "", err
			}
		}
		return "vslice(" + s + ", " + lo + ", " + hi + ")", "seq", nil
	case *EField:
		id, ok := x.X.(*EIdent)
		if !ok {
			if c, isCall := x.X.(*ECall); isCall && c.Fn == "hdr" {
				if aid, ok := c.Args[0].(*EIdent); ok {
					if code, _, ok := g.identType(aid.Name); ok {
						ht := g.e.lookupType("RR_Header")
						ft := fieldTypeOf(ht, x.F)
						if ft == nil {
							return "", "", fmt.Errorf("field %s", x.F)
						}
						return g.typed(code+".Header()."+x.F, ft, inOld, false)
					}
				}
			}
			return "", "", fmt.Errorf("field selection on a complex expression")
		}
		code, t, ok := g.identType(id.Name)
		if !ok {
			return "", "", fmt.Errorf("identifier %s", id.Name)
		}
		ft := fieldTypeOf(derefType(t), x.F)
		if ft == nil {
			return "", "", fmt.Errorf("field %s", x.F)
		}
		return g.typed(code+"."+x.F, ft, inOld, false)
	case *ECall:
		switch x.Fn {
		case "old":
			return g.expr(x.Args[0], true)
		case "len":
			s, k, err := g.expr(x.Args[0], inOld)
			if err != nil {
				return "", "", err
			}
			if k != "seq" && k != "other" {
				return "", "", fmt.Errorf("len of %s", k)
			}
			return "len(" + s + ")", "int", nil
		case "cap":
			s, _, err := g.expr(x.Args[0], inOld)
			if err != nil {
				return "", "", err
			}
			return "cap(" + s + ")", "int", nil
		case "min", "max":
			a, _, err := g.expr(x.Args[0], inOld)
			if err != nil {
				return "", "", err
			}
			b, _, err := g.expr(x.Args[1], inOld)
			if err != nil {
				return "", "", err
			}
			return x.Fn + "(" + a + ", " + b + ")", "int", nil
		case "fresh", "ref", "istype", "isptrtype", "hdr":
			return "", "", fmt.Errorf("%s() has no runtime counterpart", x.Fn)
		case "int", "uint8", "uint16", "uint32", "uint64", "byte", "uint", "int64", "int32":
			a, _, err := g.expr(x.Args[0], inOld)
			if err != nil {
				return "", "", err
			}
			return "int(" + x.Fn + "(" + a + "))", "int", nil
		}
		sp := g.e.cs.Specs[x.Fn]
		if sp == nil || sp.Uninter {
			return "", "", fmt.Errorf("function %s", x.Fn)
		}
		g.needSpec(sp.Name)
		var args []string
		for i := range sp.Params {
			a, _, err := g.expr(x.Args[i], inOld)
			if err != nil {
				return "", "", err
			}
			args = append(args, a)
		}
		k := "int"
		if sp.Ret == "bool" {
			k = "bool"
		}
		return "vspec_" + sp.Name + "(" + strings.Join(args, ", ") + ")", k, nil
	}
	return "", "", fmt.Errorf("unsupported expression %T", e)
}

func fieldTypeOf(t types.Type, f string) types.Type {
	s, ok := t.Underlying().(*types.Struct)
	if !ok {
		return nil
	}
	for i := 0; i < s.NumFields(); i++ {
		if s.Field(i).Name() == f {
			return s.Field(i).Type()
		}
	}
	for i := 0; i < s.NumFields(); i++ {
		if s.Field(i).Embedded() {
			if ft := fieldTypeOf(s.Field(i).Type(), f); ft != nil {
				return ft
			}
		}
	}
	return nil
}

func (g *goGen) needSpec(name string) {
	if g.specs[name] {
		return
	}
	g.specs[name] = true
	sp := g.e.cs.Specs[name]
	if sp != nil && sp.Body != nil {
		walkExpr(sp.Body, func(e Expr) {
			if c, ok := e.(*ECall); ok {
				if _, isSpec := g.e.cs.Specs[c.Fn]; isSpec {
					g.needSpec(c.Fn)
				}
			}
		})
	}
}

func (g *goGen) specDefs() string {
	var sb strings.Builder
	for _, n := range g.e.cs.SpecOrder {
		if !g.specs[n] {
			continue
		}
		sp := g.e.cs.Specs[n]
		if sp.Uninter {
			continue
		}
		var ps []string
		save := g.bound
		g.bound = map[string]string{}
		for _, p := range sp.Params {
			switch p.Type {
			case "seq", "string":
				ps = append(ps, p.Name+" []byte")
				g.bound[p.Name] = "seq"
			case "bool":
				ps = append(ps, p.Name+" bool")
				g.bound[p.Name] = "bool"
			default:
				ps = append(ps, p.Name+" int")
				g.bound[p.Name] = "int"
			}
		}
		body, _, err := g.expr(sp.Body, false)
		g.bound = save
		rt := "int"
		if sp.Ret == "bool" {
			rt = "bool"
		}
		if err != nil {
			body = "0"
			if rt == "bool" {
				body = "false"
			}
		}
		fmt.Fprintf(&sb, "func vspec_%s(%s) %s {\n\treturn %s\n}\n\n", sp.Name, strings.Join(ps, ", "), rt, body)
	}
	return sb.String()
}
