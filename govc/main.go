package main

import (
	"fmt"
	"golang.org/x/tools/go/packages"
)

func main() {
	cfg := &packages.Config{Mode: packages.LoadAllSyntax, Dir: "/repo", BuildFlags: []string{"-tags=verif"}}
	pkgs, err := packages.Load(cfg, ".")
	fmt.Println(len(pkgs), err)
}
