package main

import (
	"strconv"
	"encoding/json"
	"flag"
	"fmt"
	"os"
	"runtime"
	"sort"
	"strings"
	"time"
)

func usage() {
	fmt.Fprintln(os.Stderr, `usage:
  govc funcs   [-repo /repo] <name>...        verify the named functions (debugging)
  govc check   [-repo /repo] -property Cxx [-tier quick|thorough] [-evidence file]
  govc list    [-repo /repo]                  list functions under contract per property`)
	os.Exit(2)
}

func main() {
	if len(os.Args) < 2 {
		usage()
	}
	cmd := os.Args[1]
	fs := flag.NewFlagSet(cmd, flag.ExitOnError)
	repo := fs.String("repo", "/repo", "repository root")
	prop := fs.String("property", "", "property id")
	tier := fs.String("tier", "quick", "quick|thorough")
	evid := fs.String("evidence", "", "evidence file to write")
	timeout := fs.Int("timeout", 0, "seconds per solver query")
	keep := fs.Bool("keep", false, "keep SMT files")
	verbose := fs.Bool("v", false, "verbose")
	workdir := fs.String("workdir", "", "scratch directory for SMT files")
	known := fs.String("known", "/verif/known_findings.txt", "known findings file")
	replayDir := fs.String("replaydir", "/verif/replay", "directory for replay files")
	noReplay := fs.Bool("noreplay", false, "do not replay counterexamples")
	fs.Parse(os.Args[2:])
	t0 := time.Now()
	e, err := loadEngine(*repo)
	if err != nil {
		fmt.Fprintf(os.Stderr, "govc: %v\n", err)
		os.Exit(3)
	}
	e.verbose = *verbose
	e.hints = map[string]string{}
	if b, err := os.ReadFile("/verif/baseline/strategies.json"); err == nil {
		json.Unmarshal(b, &e.hints)
	}
	e.jobs = runtime.NumCPU()
	if j, err := strconv.Atoi(os.Getenv("GOVC_JOBS")); err == nil && j > 0 {
		e.jobs = j
	}
	e.timeout = *timeout
	if e.timeout == 0 {
		e.timeout = 10
		if *tier == "thorough" {
			e.timeout = 60
		}
	}
	wd := *workdir
	if wd == "" {
		wd, err = os.MkdirTemp("", "govc")
		if err != nil {
			fmt.Fprintf(os.Stderr, "govc: %v\n", err)
			os.Exit(3)
		}
		if !*keep {
			defer os.RemoveAll(wd)
		}
	}
	e.workdir = wd
	if *verbose {
		fmt.Fprintf(os.Stderr, "loaded in %.1fs, %d functions, %d contracts\n", time.Since(t0).Seconds(), len(e.funcs), len(e.cs.Funcs))
	}
	switch cmd {
	case "funcs":
		code := e.cmdFuncs(fs.Args())
		if !*keep {
			os.RemoveAll(wd)
		}
		os.Exit(code)
	case "list":
		e.cmdList()
	case "layout":
		bad := 0
		obs := e.layoutObligations([]string{"pack", "unpack"})
		obs = append(obs, e.structuralObligations("len")...)
		obs = append(obs, e.structuralObligations("copy")...)
		obs = append(obs, e.structuralObligations("isDuplicate")...)
		for _, ob := range obs {
			if ob.Status != "proved" {
				bad++
				fmt.Printf("%-8s %-40s %s\n", ob.Status, ob.Name, ob.Output)
			}
		}
		fmt.Printf("layout obligations=%d not-discharged=%d\n", len(obs), bad)
	case "copyfields":
		bad := 0
		obs := e.copyFieldObligations()
		for _, ob := range obs {
			if ob.Status != "proved" {
				bad++
				fmt.Printf("%-8s %-36s %s\n", ob.Status, ob.Name, ob.Output)
			}
		}
		fmt.Printf("copy-field obligations=%d not-discharged=%d\n", len(obs), bad)
	case "condonly":
		for n := range e.cs.Schema {
			if c := e.conditionalOnly(n); len(c) > 0 {
				fmt.Println(n, c)
			}
		}
	case "printforms":
		bad := 0
		obs := e.printFormObligations()
		for _, ob := range obs {
			if ob.Status != "proved" {
				bad++
				fmt.Printf("%-8s %-36s %s\n", ob.Status, ob.Name, ob.Output)
			}
		}
		fmt.Printf("print-form obligations=%d not-discharged=%d\n", len(obs), bad)
	case "textorder":
		bad := 0
		obs := e.textOrderObligations()
		for _, ob := range obs {
			if ob.Status != "proved" {
				bad++
				fmt.Printf("%-8s %-40s %s\n", ob.Status, ob.Name, ob.Src)
			}
		}
		fmt.Printf("text-order obligations=%d not-discharged=%d\n", len(obs), bad)
	case "mods":
		var ex []string
		for _, n := range fs.Args() {
			if strings.HasPrefix(n, "impl:") {
				ex = append(ex, e.implsOf(n[5:])...)
			} else {
				ex = append(ex, n)
			}
		}
		e.cmdMods(ex)
	case "reads":
		// reads FUNC [HEAP]: the read set, or why HEAP is in it
		fn := e.funcs[fs.Arg(0)]
		if fn == nil {
			fmt.Fprintln(os.Stderr, "unknown function")
			os.Exit(3)
		}
		if fs.NArg() > 1 {
			for _, l := range e.readWitness(fn, fs.Arg(1)) {
				fmt.Println("  ", l)
			}
		} else {
			var ns []string
			for n := range e.readset(fn) {
				ns = append(ns, n)
			}
			sort.Strings(ns)
			for _, n := range ns {
				fmt.Println(n)
			}
		}
	case "names":
		var ns []string
		for n := range e.funcs {
			ok := len(fs.Args()) == 0
			for _, a := range fs.Args() {
				if strings.Contains(n, a) {
					ok = true
				}
			}
			if ok {
				ns = append(ns, n)
			}
		}
		sort.Strings(ns)
		for _, n := range ns {
			fmt.Println(n)
		}
	case "check":
		code := e.cmdCheck(*prop, *tier, *evid, *known, *replayDir, !*noReplay, t0)
		if !*keep {
			os.RemoveAll(wd)
		}
		os.Exit(code)
	default:
		usage()
	}
}

func (e *Engine) genFunc(name string) (*FnCtx, error) {
	fn := e.funcs[name]
	if fn == nil {
		return nil, fmt.Errorf("function %q not found in the SSA program", name)
	}
	con := e.contractFor(fn)
	fc := e.newFnCtx(fn, con)
	if err := fc.generate(); err != nil {
		return fc, err
	}
	fc.checkFrame()
	fc.checkDeterministic()
	fc.finalize()
	return fc, nil
}

func (e *Engine) cmdFuncs(names []string) int {
	var all []*Obligation
	var expanded []string
	for _, n := range names {
		if strings.HasPrefix(n, "impl:") {
			expanded = append(expanded, e.implsOf(n[5:])...)
		} else {
			expanded = append(expanded, n)
		}
	}
	names = expanded
	for _, n := range names {
		if strings.HasPrefix(n, "lemma:") {
			l := e.lemma(n[6:])
			if l == nil {
				fmt.Printf("ERROR unknown lemma %s\n", n)
				continue
			}
			fc, err := e.lemmaCtx(l)
			if err != nil {
				fmt.Printf("ERROR %s: %v\n", n, err)
				continue
			}
			all = append(all, fc.obls...)
			continue
		}
		fc, err := e.genFunc(n)
		if err != nil {
			fmt.Printf("ERROR %s: %v\n", n, err)
			continue
		}
		for _, u := range fc.unsupported {
			fmt.Printf("UNSUPPORTED %s: %s\n", n, u)
		}
		all = append(all, fc.obls...)
	}
	e.dischargeAll(all)
	bad := 0
	for _, ob := range all {
		if ob.Status == "proved" || ob.Status == "trivial" {
			if e.verbose {
				fmt.Printf("%-8s %-60s %s %.2fs\n", ob.Status, ob.Name, ob.Solver, ob.Time)
			}
			continue
		}
		bad++
		at := ""
		if ob.Pos.IsValid() {
			at = fmt.Sprintf(" @%d", e.fset.Position(ob.Pos).Line)
		}
		fmt.Printf("%-8s %-60s %s %.2fs  | %s%s\n", ob.Status, ob.Name, ob.Solver, ob.Time, ob.Src, at)
		if ob.Model != "" && e.verbose {
			fmt.Println(indent(ob.Model))
		}
	}
	fmt.Printf("obligations=%d not-discharged=%d\n", len(all), bad)
	for _, w := range sortedKeys(e.warnings) {
		fmt.Println("WARNING", w)
	}
	for _, t := range e.toolErrors {
		fmt.Println("TOOL-ERROR", t)
	}
	return 0
}

func indent(s string) string {
	return "    " + strings.ReplaceAll(strings.TrimSpace(s), "\n", "\n    ")
}

func (e *Engine) cmdList() {
	byProp := map[string][]string{}
	for name, c := range e.cs.Funcs {
		for _, t := range c.Tags {
			byProp[t] = append(byProp[t], name)
		}
	}
	var props []string
	for p := range byProp {
		props = append(props, p)
	}
	sort.Strings(props)
	for _, p := range props {
		sort.Strings(byProp[p])
		fmt.Printf("%s (%d): %s\n", p, len(byProp[p]), strings.Join(byProp[p], " "))
	}
}
