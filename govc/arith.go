package main

import (
	"fmt"
	"math/big"
	"strings"
)

// Integer encoding: mathematical Int with explicit machine semantics.

func litOf(t string) (*big.Int, bool) {
	t = strings.TrimSpace(t)
	neg := false
	if strings.HasPrefix(t, "(- ") && strings.HasSuffix(t, ")") {
		inner := strings.TrimSpace(t[3 : len(t)-1])
		if _, ok := new(big.Int).SetString(inner, 10); ok {
			neg = true
			t = inner
		}
	}
	n, ok := new(big.Int).SetString(t, 10)
	if !ok {
		return nil, false
	}
	if neg {
		n.Neg(n)
	}
	return n, true
}

func bigLit(n *big.Int) string {
	if n.Sign() < 0 {
		return "(- " + new(big.Int).Neg(n).String() + ")"
	}
	return n.String()
}

// Go's truncated division from SMT's Euclidean div.
func (fc *FnCtx) goDiv(a, b string) string {
	if bn, ok := litOf(b); ok && bn.Sign() > 0 {
		if an, ok := litOf(a); ok {
			return bigLit(new(big.Int).Quo(an, bn))
		}
		return fmt.Sprintf("(ite (>= %s 0) (div %s %s) (- (div (- %s) %s)))", a, a, b, a, b)
	}
	fc.needHelper("gdiv")
	return fmt.Sprintf("(gdiv %s %s)", a, b)
}

func (fc *FnCtx) goRem(a, b string) string {
	if bn, ok := litOf(b); ok && bn.Sign() > 0 {
		if an, ok := litOf(a); ok {
			return bigLit(new(big.Int).Rem(an, bn))
		}
		return fmt.Sprintf("(ite (>= %s 0) (mod %s %s) (- (mod (- %s) %s)))", a, a, b, a, b)
	}
	fc.needHelper("gdiv")
	return fmt.Sprintf("(grem %s %s)", a, b)
}

// unsigned variants (operands known non-negative)
func udiv(a, b string) string { return fmt.Sprintf("(div %s %s)", a, b) }
func umod(a, b string) string { return fmt.Sprintf("(mod %s %s)", a, b) }

func (fc *FnCtx) needHelper(h string) {
	if fc.helpers == nil {
		fc.helpers = map[string]bool{}
	}
	fc.helpers[h] = true
}

func helperDefs(hs map[string]bool) []string {
	var out []string
	if hs["gdiv"] {
		out = append(out,
			"(define-fun gdiv ((a Int) (b Int)) Int (ite (>= a 0) (ite (> b 0) (div a b) (- (div a (- b)))) (ite (> b 0) (- (div (- a) b)) (div (- a) (- b)))))",
			"(define-fun grem ((a Int) (b Int)) Int (- a (* b (gdiv a b))))")
	}
	if hs["band"] {
		out = append(out,
			"(declare-fun band (Int Int) Int)",
			"(assert (forall ((a Int) (b Int)) (! (=> (and (<= 0 a) (<= 0 b)) (and (<= 0 (band a b)) (<= (band a b) a) (<= (band a b) b))) :pattern ((band a b)))))")
	}
	if hs["pow2"] {
		var sb strings.Builder
		sb.WriteString("(define-fun pow2 ((n Int)) Int ")
		for i := 0; i < 64; i++ {
			fmt.Fprintf(&sb, "(ite (= n %d) %s ", i, pow2s(i))
		}
		sb.WriteString("0")
		sb.WriteString(strings.Repeat(")", 64))
		sb.WriteString(")")
		out = append(out, sb.String())
	}
	return out
}

func (fc *FnCtx) shiftLeft(a, n string) string {
	if k, ok := litOf(n); ok && k.Sign() >= 0 && k.IsInt64() && k.Int64() < 200 {
		if an, ok := litOf(a); ok {
			return bigLit(new(big.Int).Lsh(an, uint(k.Int64())))
		}
		return fmt.Sprintf("(* %s %s)", a, pow2s(int(k.Int64())))
	}
	fc.needHelper("pow2")
	return fmt.Sprintf("(* %s (pow2 %s))", a, n)
}

func (fc *FnCtx) shiftRight(a, n string) string {
	if k, ok := litOf(n); ok && k.Sign() >= 0 && k.IsInt64() && k.Int64() < 200 {
		if an, ok := litOf(a); ok {
			return bigLit(new(big.Int).Rsh(an, uint(k.Int64())))
		}
		return fmt.Sprintf("(div %s %s)", a, pow2s(int(k.Int64())))
	}
	fc.needHelper("pow2")
	return fmt.Sprintf("(ite (and (<= 0 %s) (< %s 64)) (div %s (pow2 %s)) (ite (>= %s 0) 0 (- 1)))", n, n, a, n, a)
}

// maskRuns decomposes a non-negative constant mask into runs of set bits (lo, len).
func maskRuns(m *big.Int) [][2]int {
	var runs [][2]int
	n := m.BitLen()
	i := 0
	for i < n {
		if m.Bit(i) == 1 {
			j := i
			for j < n && m.Bit(j) == 1 {
				j++
			}
			runs = append(runs, [2]int{i, j - i})
			i = j
		} else {
			i++
		}
	}
	return runs
}

// bitAnd of non-negative operands.
func (fc *FnCtx) bitAnd(a, b string) string {
	an, aok := litOf(a)
	bn, bok := litOf(b)
	if aok && bok && an.Sign() >= 0 && bn.Sign() >= 0 {
		return bigLit(new(big.Int).And(an, bn))
	}
	if aok && !bok {
		a, b, an, bn, aok, bok = b, a, bn, an, bok, aok
	}
	if bok && bn.Sign() >= 0 {
		if bn.Sign() == 0 {
			return "0"
		}
		var parts []string
		for _, r := range maskRuns(bn) {
			lo, ln := r[0], r[1]
			t := a
			if lo > 0 {
				t = fmt.Sprintf("(div %s %s)", a, pow2s(lo))
			}
			t = fmt.Sprintf("(mod %s %s)", t, pow2s(ln))
			if lo > 0 {
				t = fmt.Sprintf("(* %s %s)", t, pow2s(lo))
			}
			parts = append(parts, t)
		}
		if len(parts) == 1 {
			return parts[0]
		}
		return "(+ " + strings.Join(parts, " ") + ")"
	}
	fc.needHelper("band")
	return fmt.Sprintf("(band %s %s)", a, b)
}

func (fc *FnCtx) bitOr(a, b string) string {
	if an, ok := litOf(a); ok {
		if bn, ok := litOf(b); ok && an.Sign() >= 0 && bn.Sign() >= 0 {
			return bigLit(new(big.Int).Or(an, bn))
		}
	}
	and := fc.bitAnd(a, b)
	if strings.HasPrefix(and, "(band ") {
		// byte-assembly facts: x*2^k | y with 0 <= y < 2^k has no common bits
		for _, k := range []int{1, 2, 3, 4, 5, 6, 7, 8, 11, 12, 16, 24, 32, 40, 48, 56} {
			p := pow2s(k)
			fc.assertGlobal(fmt.Sprintf("(=> (and (= (mod %s %s) 0) (<= 0 %s) (< %s %s)) (= %s 0))", a, p, b, b, p, and))
			fc.assertGlobal(fmt.Sprintf("(=> (and (= (mod %s %s) 0) (<= 0 %s) (< %s %s)) (= %s 0))", b, p, a, a, p, and))
		}
	}
	return fmt.Sprintf("(- (+ %s %s) %s)", a, b, and)
}

func (fc *FnCtx) bitXor(a, b string) string {
	if an, ok := litOf(a); ok {
		if bn, ok := litOf(b); ok && an.Sign() >= 0 && bn.Sign() >= 0 {
			return bigLit(new(big.Int).Xor(an, bn))
		}
	}
	return fmt.Sprintf("(- (+ %s %s) (* 2 %s))", a, b, fc.bitAnd(a, b))
}
