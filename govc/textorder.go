package main

// Text-order obligations (C05): the presentation format of a record lists the RDATA fields in the order of the
// wire layout (RFC 1035 5.1 and every later RFC that defines a type print "the RDATA fields in order"), without
// the length octets that are derived from a later field (hex(L), b64(L), b32(L)), unless a `textorder` line of
// the schema file gives the order the RFC prescribes for the type.  For every record type with a schema:
//
//   (*T).String#text.order   the first mentions of the receiver's RDATA fields in the body of String(), in source
//                            order, are exactly the text fields in that order (a field that is never printed, one
//                            printed twice before the next, or two fields swapped fails);
//   (*T).parse#text.order    the RDATA fields parse() assigns, by first assignment in source order, are the text
//                            fields in that order, and every derived length field is assigned as well.
//
// Source order equals output/consumption order because both methods are straight-line over the token stream
// (string concatenation, strings.Builder writes, c.Next() calls); a method that computes pieces out of order and
// assembles them later would be reported here although it is right - none exists in the tree, and the report
// would name this matcher.  Decided on the syntax tree of the current source, no solver.

import (
	"fmt"
	"go/ast"
	"go/token"
	"strings"
)

// textFields: the fields of the presentation format, in order, and the derived length fields
func (e *Engine) textFields(tname string) (text []string, derived []string, ok bool) {
	fields, ok := e.cs.schemaFields(tname)
	if !ok {
		return nil, nil, false
	}
	isLen := map[string]bool{}
	for _, f := range fields {
		switch f.Codec {
		case "hex", "b64", "b32":
			if f.Arg != "" {
				isLen[f.Arg] = true
			}
		}
	}
	for _, f := range fields {
		for _, g := range f.GoFields {
			if isLen[g] {
				derived = append(derived, g)
			} else {
				text = append(text, g)
			}
		}
	}
	base := tname
	for i := 0; i < 4; i++ {
		if st := e.cs.Schema[base]; st != nil && st.Alias != "" {
			base = st.Alias
		}
	}
	if o, has := e.cs.TextOrder[base]; has {
		text = o
	}
	return text, derived, true
}

func recvName(fd *ast.FuncDecl) string {
	if fd.Recv == nil || len(fd.Recv.List) == 0 || len(fd.Recv.List[0].Names) == 0 {
		return ""
	}
	return fd.Recv.List[0].Names[0].Name
}

// fieldOf: x is `recv.F` (F an RDATA field, not Hdr) - returns F
func fieldOf(x ast.Expr, recv string) string {
	for {
		switch y := x.(type) {
		case *ast.ParenExpr:
			x = y.X
			continue
		case *ast.IndexExpr:
			x = y.X
			continue
		case *ast.SliceExpr:
			x = y.X
			continue
		}
		break
	}
	se, ok := x.(*ast.SelectorExpr)
	if !ok {
		return ""
	}
	id, ok := se.X.(*ast.Ident)
	if !ok || id.Name != recv || se.Sel.Name == "Hdr" {
		return ""
	}
	return se.Sel.Name
}

// mentionOrder: RDATA fields of the receiver in the order in which String() writes them.  Mentions in conditions
// (if, switch tag, for) select a form and print nothing, so they do not count.  A local that is assigned a piece of
// text computed from fields (`gateway = rr.GatewayAddr.String()`, `certtype, ok = CertTypeToString[rr.Type]`) and is
// never accumulated into (`+=`, or mentioned on its own right-hand side) stands for those fields where it is used.
func mentionOrder(fd *ast.FuncDecl, known map[string]bool) []string {
	recv := recvName(fd)
	fieldsIn := func(n ast.Node) []string {
		var fs []string
		ast.Inspect(n, func(m ast.Node) bool {
			if se, ok := m.(*ast.SelectorExpr); ok {
				if f := fieldOf(se, recv); f != "" && known[f] {
					fs = append(fs, f)
				}
			}
			return true
		})
		return fs
	}
	mentionsIdent := func(n ast.Node, name string) bool {
		found := false
		ast.Inspect(n, func(m ast.Node) bool {
			if id, ok := m.(*ast.Ident); ok && id.Name == name {
				found = true
			}
			return true
		})
		return found
	}
	// piece variables
	piece := map[string]bool{}
	accum := map[string]bool{}
	ast.Inspect(fd.Body, func(n ast.Node) bool {
		as, ok := n.(*ast.AssignStmt)
		if !ok {
			return true
		}
		for i, l := range as.Lhs {
			id, ok := l.(*ast.Ident)
			if !ok || id.Name == "_" {
				continue
			}
			var rhs ast.Expr
			if len(as.Rhs) == len(as.Lhs) {
				rhs = as.Rhs[i]
			} else if len(as.Rhs) == 1 {
				rhs = as.Rhs[0]
			}
			if as.Tok != token.ASSIGN && as.Tok != token.DEFINE {
				accum[id.Name] = true
				continue
			}
			if rhs != nil && mentionsIdent(rhs, id.Name) {
				accum[id.Name] = true
				continue
			}
			if rhs != nil && len(fieldsIn(rhs)) > 0 {
				piece[id.Name] = true
			}
		}
		return true
	})
	for v := range accum {
		delete(piece, v)
	}
	pieces := map[string][]string{}
	seen := map[string]bool{}
	var out []string
	emit := func(f string) {
		if !seen[f] {
			seen[f] = true
			out = append(out, f)
		}
	}
	var walk func(n ast.Node)
	walk = func(n ast.Node) {
		if n == nil {
			return
		}
		ast.Inspect(n, func(m ast.Node) bool {
			switch x := m.(type) {
			case *ast.IfStmt:
				if x.Init != nil {
					walk(x.Init)
				}
				walk(x.Body)
				if x.Else != nil {
					walk(x.Else)
				}
				return false
			case *ast.SwitchStmt:
				if x.Init != nil {
					walk(x.Init)
				}
				walk(x.Body)
				return false
			case *ast.CaseClause:
				for _, st := range x.Body {
					walk(st)
				}
				return false
			case *ast.ForStmt:
				if x.Init != nil {
					walk(x.Init)
				}
				walk(x.Body)
				return false
			case *ast.AssignStmt:
				if len(x.Lhs) >= 1 {
					if id, ok := x.Lhs[0].(*ast.Ident); ok && piece[id.Name] {
						for _, r := range x.Rhs {
							pieces[id.Name] = append(pieces[id.Name], fieldsIn(r)...)
						}
						return false
					}
				}
			case *ast.SelectorExpr:
				if f := fieldOf(x, recv); f != "" && known[f] {
					emit(f)
					return false
				}
			case *ast.Ident:
				if piece[x.Name] {
					for _, f := range pieces[x.Name] {
						emit(f)
					}
				}
			}
			return true
		})
	}
	walk(fd.Body)
	return out
}

// assignOrder: RDATA fields of the receiver in order of first assignment
func assignOrder(fd *ast.FuncDecl, known map[string]bool) []string {
	recv := recvName(fd)
	seen := map[string]bool{}
	var out []string
	add := func(x ast.Expr) {
		if f := fieldOf(x, recv); f != "" && known[f] && !seen[f] {
			seen[f] = true
			out = append(out, f)
		}
	}
	ast.Inspect(fd.Body, func(n ast.Node) bool {
		switch s := n.(type) {
		case *ast.AssignStmt:
			if len(s.Rhs) == 1 && len(s.Lhs) == 1 {
				if _, lit := s.Rhs[0].(*ast.BasicLit); lit {
					return true // a constant default, not a value read from the text
				}
			}
			for _, l := range s.Lhs {
				add(l)
			}
		case *ast.IncDecStmt:
			add(s.X)
		case *ast.UnaryExpr:
			if s.Op == token.AND { // &rr.F handed to a helper that fills it
				add(s.X)
			}
		}
		return true
	})
	return out
}

// delegate: the body is a single `return rr.M(...)` or `return rr.E.M(...)` - the method that does the work
func (e *Engine) delegate(fd *ast.FuncDecl, tname string) (*ast.FuncDecl, bool) {
	if len(fd.Body.List) != 1 {
		return nil, false
	}
	rs, ok := fd.Body.List[0].(*ast.ReturnStmt)
	if !ok || len(rs.Results) != 1 {
		return nil, false
	}
	call, ok := rs.Results[0].(*ast.CallExpr)
	if !ok {
		return nil, false
	}
	se, ok := call.Fun.(*ast.SelectorExpr)
	if !ok {
		return nil, false
	}
	recv := recvName(fd)
	var cands []string
	switch x := se.X.(type) {
	case *ast.Ident:
		if x.Name != recv {
			return nil, false
		}
		t := tname
		for i := 0; i < 4; i++ {
			cands = append(cands, "(*"+t+")."+se.Sel.Name)
			if st := e.cs.Schema[t]; st != nil && st.Alias != "" {
				t = st.Alias
			} else {
				break
			}
		}
	case *ast.SelectorExpr:
		if id, ok := x.X.(*ast.Ident); !ok || id.Name != recv {
			return nil, false
		}
		cands = append(cands, "(*"+x.Sel.Name+")."+se.Sel.Name)
	}
	for _, c := range cands {
		if g, ok := e.funcBody(c); ok && g != fd {
			return g, true
		}
	}
	return nil, false
}

func (e *Engine) textOrderObligations() []*Obligation {
	var out []*Obligation
	var names []string
	for n := range e.cs.Schema {
		names = append(names, n)
	}
	sortStrings(names)
	mk := func(fname, label, src string, ok bool, msg string, st *SchemaType) {
		ob := &Obligation{Fn: fname, Name: fname + "#" + label, Kind: "layout", Solver: "structural matcher (syntax tree of the current source)", Src: src}
		ob.Clause = &Clause{Label: label, Src: src, File: st.File, Line: st.Line}
		if ok {
			ob.Status = "proved"
		} else {
			ob.Status = "failed"
			ob.Output = msg
			ob.Src += " -- " + msg
		}
		if fn := e.funcs[fname]; fn != nil {
			ob.Pos = fn.Pos()
		}
		out = append(out, ob)
	}
	for _, n := range names {
		st := e.cs.Schema[n]
		if e.cs.NoText[n] {
			continue
		}
		text, derived, ok := e.textFields(n)
		if !ok || len(text) == 0 {
			continue
		}
		known := map[string]bool{}
		for _, f := range text {
			known[f] = true
		}
		want := strings.Join(text, " ")
		src := fmt.Sprintf("presentation order of %s: %s", n, want)
		if fd, ok := e.funcBody("(*" + n + ").String"); ok && recvName(fd) != "" {
			if g, ok := e.delegate(fd, n); ok {
				fd = g
			}
			got := strings.Join(mentionOrder(fd, known), " ")
			okOrder, msg := got == want, "String() mentions the fields in the order: "+got
			// every field is written on every path: a field that is only mentioned inside the body of an if, switch or
			// loop is left out for some values (the gateway of IPSECKEY/AMTRELAY, selected by its type field, excepted)
			gw := map[string]bool{}
			if fs, ok := e.cs.schemaFields(n); ok {
				for _, f := range fs {
					if f.Codec == "gateway" {
						for _, g := range f.GoFields {
							gw[g] = true
						}
					}
				}
			}
			var cond []string
			for _, f := range e.conditionalOnly(n) {
				if !gw[f] {
					cond = append(cond, f)
				}
			}
			if okOrder && len(cond) > 0 {
				okOrder, msg = false, "String() writes "+strings.Join(cond, ", ")+" only under a condition"
			}
			if miss := e.missingAtReturn(n); okOrder && len(miss) > 0 {
				okOrder, msg = false, "String() has a return before which "+strings.Join(miss, ", ")+" has not been written"
			}
			mk("(*"+n+").String", "text.order", src, okOrder, msg, st)
		}
		if fd, ok := e.funcBody("(*" + n + ").parse"); ok && recvName(fd) != "" {
			if g, ok := e.delegate(fd, n); ok {
				fd = g
			}
			all := map[string]bool{}
			for f := range known {
				all[f] = true
			}
			for _, f := range derived {
				all[f] = true
			}
			order := assignOrder(fd, all)
			var got []string
			set := map[string]bool{}
			for _, f := range order {
				set[f] = true
				if known[f] {
					got = append(got, f)
				}
			}
			msg := "parse() assigns the fields in the order: " + strings.Join(got, " ")
			good := strings.Join(got, " ") == want
			for _, f := range derived {
				if !set[f] {
					good = false
					msg += "; the derived length " + f + " is never assigned"
				}
			}
			mk("(*"+n+").parse", "text.order", src, good, msg, st)
		}
	}
	return out
}

// conditionalOnly: text fields of String() whose every mention lies inside the body of an if/switch/for statement
func (e *Engine) conditionalOnly(tname string) []string {
	fd, ok := e.funcBody("(*" + tname + ").String")
	if !ok || recvName(fd) == "" {
		return nil
	}
	if g, ok := e.delegate(fd, tname); ok {
		fd = g
	}
	text, _, ok := e.textFields(tname)
	if !ok {
		return nil
	}
	recv := recvName(fd)
	uncond := map[string]bool{}
	var walk func(n ast.Node, depth int)
	walk = func(n ast.Node, depth int) {
		if n == nil {
			return
		}
		ast.Inspect(n, func(m ast.Node) bool {
			switch x := m.(type) {
			case *ast.IfStmt:
				walk(x.Init, depth)
				walk(x.Body, depth+1)
				walk(x.Else, depth+1)
				return false
			case *ast.SwitchStmt:
				walk(x.Init, depth)
				walk(x.Body, depth+1)
				return false
			case *ast.ForStmt:
				walk(x.Body, depth+1)
				return false
			case *ast.RangeStmt:
				walk(x.X, depth)
				walk(x.Body, depth+1)
				return false
			case *ast.SelectorExpr:
				if f := fieldOf(x, recv); f != "" && depth == 0 {
					uncond[f] = true
				}
			}
			return true
		})
	}
	walk(fd.Body, 0)
	var out []string
	for _, f := range text {
		if !uncond[f] {
			out = append(out, f)
		}
	}
	return out
}

// missingAtReturn: for every return statement of String(), the text fields that have not been written by then
// (mentions in conditions do not count).  An absent address (codecs a, aaaa) and the gateway alternatives may be left out.
func (e *Engine) missingAtReturn(tname string) []string {
	fd, ok := e.funcBody("(*" + tname + ").String")
	if !ok || recvName(fd) == "" {
		return nil
	}
	if g, ok := e.delegate(fd, tname); ok {
		fd = g
	}
	text, _, ok := e.textFields(tname)
	if !ok {
		return nil
	}
	exempt := map[string]bool{}
	if fs, ok := e.cs.schemaFields(tname); ok {
		for _, f := range fs {
			switch f.Codec {
			case "a", "aaaa", "gateway":
				for _, g := range f.GoFields {
					exempt[g] = true
				}
			}
		}
	}
	recv := recvName(fd)
	type mention struct {
		pos token.Pos
		f   string
	}
	var ms []mention
	var rets []*ast.ReturnStmt
	var walk func(n ast.Node)
	walk = func(n ast.Node) {
		if n == nil {
			return
		}
		ast.Inspect(n, func(m ast.Node) bool {
			switch x := m.(type) {
			case *ast.IfStmt:
				walk(x.Init)
				walk(x.Body)
				walk(x.Else)
				return false
			case *ast.SwitchStmt:
				walk(x.Init)
				walk(x.Body)
				return false
			case *ast.ForStmt:
				walk(x.Body)
				return false
			case *ast.FuncLit:
				return false
			case *ast.ReturnStmt:
				rets = append(rets, x)
			case *ast.SelectorExpr:
				if f := fieldOf(x, recv); f != "" {
					ms = append(ms, mention{x.Pos(), f})
				}
			}
			return true
		})
	}
	walk(fd.Body)
	bad := map[string]bool{}
	for _, r := range rets {
		seen := map[string]bool{}
		for _, m := range ms {
			if m.pos < r.End() {
				seen[m.f] = true
			}
		}
		for _, f := range text {
			if !seen[f] && !exempt[f] {
				bad[f] = true
			}
		}
	}
	var out []string
	for _, f := range text {
		if bad[f] {
			out = append(out, f)
		}
	}
	return out
}
