package main

// Deterministic functions.  A contract may declare `deterministic`: every integer/boolean result of the
// function is a mathematical function of its arguments and of the heap.  Call sites then equate the result
// with an uninterpreted function of the flattened arguments and a "heap stamp" (a symbol that is renewed by
// every heap write or havoc), so two calls with equal arguments and no heap change in between yield equal
// results, and contracts can speak about "the value F would return here" with det("F", args...).
//
// The declaration is justified by a syntactic scan (detScan) of the function and everything it can reach:
// no map iteration, no select/channel/go statement, no pointer-to-integer conversion, no call outside the
// module except a list of library functions known to be functions of their arguments.  Calls through an
// interface that user code may implement are reported as assumptions.

import (
	"fmt"
	"go/types"
	"sort"
	"strings"

	"golang.org/x/tools/go/ssa"
)


func addReadHeaps(prefix string, t types.Type, elem bool, into map[string]string) {
	if st, ok := t.Underlying().(*types.Struct); ok {
		for i := 0; i < st.NumFields(); i++ {
			h, ft := structFieldHeap(t, i)
			addReadHeaps(h, ft, false, into)
		}
		return
	}
	if at, ok := t.Underlying().(*types.Array); ok {
		addReadHeaps("A."+typeName(at.Elem()), at.Elem(), true, into)
		return
	}
	names := heapNamesOfType(prefix, t)
	sorts := sortsOf(t)
	for i, n := range names {
		if elem {
			into[n] = arrOf(arrOf(sorts[i]))
		} else {
			into[n] = arrOf(sorts[i])
		}
	}
}

func loadHeaps(a ssa.Value, into map[string]string) {
	switch x := a.(type) {
	case *ssa.FieldAddr:
		st := derefType(x.X.Type())
		h, ft := structFieldHeap(st, x.Field)
		addReadHeaps(h, ft, false, into)
	case *ssa.IndexAddr:
		var et types.Type
		switch u := x.X.Type().Underlying().(type) {
		case *types.Slice:
			et = u.Elem()
		case *types.Pointer:
			et = u.Elem().Underlying().(*types.Array).Elem()
		}
		if et != nil {
			addReadHeaps("A."+typeName(et), et, true, into)
		}
	default:
		t := derefType(a.Type())
		addReadHeaps("M."+typeName(t), t, false, into)
	}
}

// readset: the heaps a function (and everything it calls inside the module) may read, name -> SMT sort.
// Library functions read the element heaps of their slice arguments.  "*" marks an unknown callee.
func (e *Engine) readset(fn *ssa.Function) map[string]string {
	if e.readsets == nil {
		e.readsets = map[*ssa.Function]map[string]string{}
	}
	if r, ok := e.readsets[fn]; ok {
		return r
	}
	out := map[string]string{}
	seen := map[*ssa.Function]bool{}
	var walk func(f *ssa.Function)
	walk = func(f *ssa.Function) {
		if seen[f] {
			return
		}
		seen[f] = true
		if len(f.Blocks) == 0 || (f.Pkg != nil && !strings.HasPrefix(f.Pkg.Pkg.Path(), dnsPath)) || (f.Pkg == nil && f.Synthetic == "") {
			for _, p := range f.Params {
				if sl, ok := p.Type().Underlying().(*types.Slice); ok {
					addReadHeaps("A."+typeName(sl.Elem()), sl.Elem(), true, out)
				} else if _, ok := p.Type().Underlying().(*types.Pointer); ok {
					t := derefType(p.Type())
					addReadHeaps("M."+typeName(t), t, false, out)
				}
			}
			return
		}
		for _, b := range f.Blocks {
			for _, in := range b.Instrs {
				switch x := in.(type) {
				case *ssa.UnOp:
					if x.Op.String() == "*" && !rootIsLocalAlloc(x.X, 0) {
						loadHeaps(x.X, out)
					}
				case *ssa.Lookup:
					if _, ok := x.X.Type().Underlying().(*types.Map); ok {
						out["MS."+typeName(x.X.Type())] = arrOf(SInt)
					}
				case *ssa.Range:
					if _, ok := x.X.Type().Underlying().(*types.Map); ok {
						out["MS."+typeName(x.X.Type())] = arrOf(SInt)
					}
				}
				ci, ok := in.(ssa.CallInstruction)
				if !ok {
					continue
				}
				c := ci.Common()
				if c.IsInvoke() {
					for _, g := range e.implementations(c) {
						walk(g)
					}
					continue
				}
				switch g := c.Value.(type) {
				case *ssa.Function:
					walk(g)
				case *ssa.MakeClosure:
					walk(g.Fn.(*ssa.Function))
				case *ssa.Builtin:
					switch g.Name() {
					case "append", "copy":
						for _, a := range c.Args {
							if sl, ok := a.Type().Underlying().(*types.Slice); ok {
								addReadHeaps("A."+typeName(sl.Elem()), sl.Elem(), true, out)
							}
						}
					case "len":
						if len(c.Args) > 0 {
							if _, ok := c.Args[0].Type().Underlying().(*types.Map); ok {
								out["MS."+typeName(c.Args[0].Type())] = arrOf(SInt)
							}
						}
					}
				default:
					out["*"] = ""
				}
			}
		}
	}
	walk(fn)
	e.readsets[fn] = out
	return out
}

// detApp builds the application of the uninterpreted result function of fname (result component k) to the
// flattened arguments and the current versions of every heap the function may read.
func (fc *FnCtx) detApp(fname string, k int, rsort string, args []Val, h *HeapState) string {
	fn := fc.e.funcByName(fname)
	if fn == nil {
		fc.fail("det: unknown function %s", fname)
	}
	rs := fc.e.readset(fn)
	if _, bad := rs["*"]; bad {
		fc.fail("det: %s calls through function values; its read set is unknown", fname)
	}
	var sorts, terms []string
	for _, a := range args {
		ss := sortsOf(a.T)
		if len(ss) != len(a.C) {
			ss = make([]string, len(a.C))
			for i := range ss {
				ss[i] = SInt
			}
		}
		sorts = append(sorts, ss...)
		terms = append(terms, a.C...)
	}
	var names []string
	for n := range rs {
		names = append(names, n)
	}
	sort.Strings(names)
	for _, n := range names {
		if _, known := fc.heapSort[n]; !known {
			fc.heapSort[n] = rs[n]
		}
		sorts = append(sorts, fc.heapSort[n])
		terms = append(terms, fc.getHeapTerm(h, n, fc.heapSort[n]))
	}
	name := fmt.Sprintf("det.%s.%d", mangle(fname), k)
	if !fc.declared[name] {
		fc.declared[name] = true
		fc.decls = append(fc.decls, fmt.Sprintf("(declare-fun %s (%s) %s)", name, strings.Join(sorts, " "), rsort))
	}
	return fmt.Sprintf("(%s %s)", name, strings.Join(terms, " "))
}

// assumeDeterministic ties the scalar results of a call to the result functions.
func (fc *FnCtx) assumeDeterministic(fname string, args []Val, rv Val, h *HeapState) {
	ss := sortsOf(rv.T)
	if len(ss) != len(rv.C) {
		return
	}
	kinds := []Kind{rv.K}
	if rv.K == KTuple {
		kinds = nil
		tu := rv.T.Underlying().(*types.Tuple)
		for i := 0; i < tu.Len(); i++ {
			lo, hi, ft := fieldRange(rv.T, i)
			for j := lo; j < hi; j++ {
				kinds = append(kinds, kindOf(ft))
			}
		}
	}
	for k, c := range rv.C {
		if k >= len(kinds) || (kinds[k] != KInt && kinds[k] != KBool) {
			continue
		}
		fc.assumeHere(fmt.Sprintf("(= %s %s)", c, fc.detApp(fname, k, ss[k], args, h)))
	}
}

var detLibOK = []string{"strings.", "strconv.", "bytes.", "unicode.", "unicode/utf8.", "math.", "math/bits.", "encoding/binary.",
	"encoding/hex.", "encoding/base64.", "encoding/base32.", "net.IP", "net.ParseIP", "net.IPMask", "net.CIDRMask", "errors.New", "fmt.Sprintf", "fmt.Errorf", "sort.", "slices.",
	"(encoding/binary.", "(*strings.Builder)", "(*encoding/base64.", "(*encoding/base32.", "(net.IP)", "(net.IPMask)", "(*bytes.Buffer)", "net/netip.", "(net/netip."}

// detScan lists what stands between fn and "its scalar results are a function of arguments and heap".
// hard: constructs that are genuinely non-deterministic; soft: assumptions (user-implemented interfaces).
func (e *Engine) detScan(fn *ssa.Function) (hard, soft []string) {
	seen := map[*ssa.Function]bool{}
	hs, ss := map[string]bool{}, map[string]bool{}
	var walk func(f *ssa.Function)
	walk = func(f *ssa.Function) {
		if seen[f] {
			return
		}
		seen[f] = true
		if len(f.Blocks) == 0 || (f.Pkg != nil && !strings.HasPrefix(f.Pkg.Pkg.Path(), dnsPath)) || (f.Pkg == nil && f.Synthetic == "") {
			n := f.String()
			for _, p := range detLibOK {
				if strings.HasPrefix(n, p) {
					return
				}
			}
			hs["call to "+n] = true
			return
		}
		for _, b := range f.Blocks {
			for _, in := range b.Instrs {
				switch x := in.(type) {
				case *ssa.Range:
					if _, ok := x.X.Type().Underlying().(*types.Map); ok {
						hs["map iteration in "+f.String()] = true
					}
				case *ssa.Select:
					hs["select in "+f.String()] = true
				case *ssa.Go:
					hs["go statement in "+f.String()] = true
				case *ssa.Send:
					hs["channel send in "+f.String()] = true
				case *ssa.UnOp:
					if x.Op.String() == "<-" {
						hs["channel receive in "+f.String()] = true
					}
				case *ssa.Convert:
					if b, ok := x.Type().Underlying().(*types.Basic); ok && b.Kind() == types.Uintptr {
						hs["pointer to integer conversion in "+f.String()] = true
					}
				}
				ci, ok := in.(ssa.CallInstruction)
				if !ok {
					continue
				}
				if _, isGo := in.(*ssa.Go); isGo {
					continue
				}
				c := ci.Common()
				if c.IsInvoke() {
					impls := e.implementations(c)
					if impls == nil {
						ss["interface method "+types.TypeString(c.Value.Type(), nil)+"."+c.Method.Name()+" (implemented outside the module) is a function of its receiver"] = true
						continue
					}
					for _, g := range impls {
						walk(g)
					}
					continue
				}
				switch g := c.Value.(type) {
				case *ssa.Function:
					walk(g)
				case *ssa.MakeClosure:
					walk(g.Fn.(*ssa.Function))
				case *ssa.Builtin:
				default:
					ss["call through a function value in "+f.String()] = true
				}
			}
		}
	}
	walk(fn)
	for k := range hs {
		hard = append(hard, k)
	}
	for k := range ss {
		soft = append(soft, k)
	}
	sort.Strings(hard)
	sort.Strings(soft)
	return
}

// checkDeterministic adds the obligation that justifies a `deterministic` declaration.
func (fc *FnCtx) checkDeterministic() {
	con := fc.con
	if con == nil || !con.Deterministic || con.Kind != "func" || fc.fn == nil {
		return
	}
	hard, soft := fc.e.detScan(fc.fn)
	ob := &Obligation{Fn: fc.name, Name: fc.name + "#frame.deterministic", Kind: "frame", Cond: "true", Guard: "true", Pos: fc.fn.Pos(), fc: fc,
		Src: "declared deterministic; assumed: " + strings.Join(soft, "; ")}
	if len(hard) > 0 {
		ob.Cond = "false"
		ob.Status = "failed"
		ob.Solver = "syntactic determinism scan"
		ob.Src = "declared deterministic but the function can reach: " + strings.Join(hard, "; ")
	}
	for _, s := range soft {
		fc.e.assume("determinism of %s: %s", fc.name, s)
	}
	fc.obls = append(fc.obls, ob)
}

func (e *Engine) contractByName(name string) *Contract {
	return e.cs.Funcs[name]
}

func (e *Engine) funcByName(name string) *ssa.Function { return e.funcs[name] }

// readWitness explains why heap h is in the read set of fn (call chain to the reading function).
func (e *Engine) readWitness(fn *ssa.Function, h string) []string {
	type item struct {
		f    *ssa.Function
		path []string
	}
	seen := map[*ssa.Function]bool{fn: true}
	q := []item{{fn, []string{fn.String()}}}
	for len(q) > 0 {
		it := q[0]
		q = q[1:]
		f := it.f
		if len(f.Blocks) == 0 {
			continue
		}
		for _, b := range f.Blocks {
			for _, in := range b.Instrs {
				if u, ok := in.(*ssa.UnOp); ok && u.Op.String() == "*" {
					m := map[string]string{}
					loadHeaps(u.X, m)
					if _, ok := m[h]; ok {
						return append(it.path, "reads at "+e.prog.Fset.Position(u.Pos()).String())
					}
				}
				ci, ok := in.(ssa.CallInstruction)
				if !ok {
					continue
				}
				c := ci.Common()
				var next []*ssa.Function
				if c.IsInvoke() {
					next = e.implementations(c)
				} else if g, ok := c.Value.(*ssa.Function); ok {
					next = []*ssa.Function{g}
				} else if mc, ok := c.Value.(*ssa.MakeClosure); ok {
					next = []*ssa.Function{mc.Fn.(*ssa.Function)}
				}
				for _, g := range next {
					if !seen[g] {
						seen[g] = true
						q = append(q, item{g, append(append([]string{}, it.path...), g.String())})
					}
				}
			}
		}
	}
	return nil
}
