package main

// Print-form obligations (C05): in String() every integer field of a record is written in decimal
// (strconv.Itoa / FormatInt base 10; RFC 1035 5.1 "decimal integers"), every domain name through sprintName (escapes),
// every <character-string> list through sprintTxt and every octet string through sprintTxtOctet.  The exceptions are
// the forms the RFCs prescribe for single fields (times as YYYYMMDDHHmmSS, EUI and node identifiers in hex, the LOC
// format, mnemonics looked up in a table with a decimal fallback).  A mention inside a condition selects a form and
// is not a write.  One obligation `(*T).String#text.form` per record type; decided on the syntax tree.

import (
	"fmt"
	"go/ast"
	"strings"
)

var printForms = map[string][]string{
	"u8":    {"strconv.Itoa(int(F))"},
	"u16":   {"strconv.Itoa(int(F))"},
	"u32":   {"strconv.FormatInt(int64(F), 10)", "strconv.Itoa(int(F))"},
	"cname": {"sprintName(F)"},
	"name":  {"sprintName(F)"},
	"txts":  {"sprintTxt(F)"},
	"octet": {"sprintTxtOctet(F)"},
}

// forms single fields have by their RFC
var printFormExceptions = map[string][]string{
	"RRSIG.TypeCovered":     {"Type(F).String()"},              // type mnemonic or TYPEnnn
	"RRSIG.Expiration":      {"TimeToString(F)"},               // RFC 4034 3.2: YYYYMMDDHHmmSS
	"RRSIG.Inception":       {"TimeToString(F)"},
	"TKEY.Inception":        {"TimeToString(F)"},
	"TKEY.Expiration":       {"TimeToString(F)"},
	"CERT.Type":             {"CertTypeToString[F]", "strconv.Itoa(int(F))"}, // RFC 4398 2.2: mnemonic or decimal
	"CERT.Algorithm":        {"AlgorithmToString[F]", "strconv.Itoa(int(F))"},
	"AMTRELAY.GatewayType":  {"strconv.Itoa(int(F & 0x7f))"}, // RFC 8777 4.1: D bit and type are written apart
	"NAPTR.Replacement":     {"F"},
	"TKEY.Algorithm":        {"F"},
	"TSIG.Algorithm":        {"F"},
	"LOC.*":                 {"*"}, // RFC 1876 3: degrees, minutes, seconds, metres
}

func (e *Engine) printFormObligations() []*Obligation {
	var out []*Obligation
	var names []string
	for n := range e.cs.Schema {
		names = append(names, n)
	}
	sortStrings(names)
	for _, n := range names {
		st := e.cs.Schema[n]
		if e.cs.NoText[n] {
			continue
		}
		fields, ok := e.cs.schemaFields(n)
		if !ok {
			continue
		}
		fd, ok := e.funcBody("(*" + n + ").String")
		if !ok || recvName(fd) == "" {
			continue
		}
		if g, ok := e.delegate(fd, n); ok {
			fd = g
		}
		base := n
		for i := 0; i < 4; i++ {
			if s2 := e.cs.Schema[base]; s2 != nil && s2.Alias != "" {
				base = s2.Alias
			}
		}
		recv := recvName(fd)
		codec := map[string]string{}
		for _, f := range fields {
			for _, g := range f.GoFields {
				codec[g] = f.Codec
			}
		}
		var bad []string
		sites := 0
		var walk func(n ast.Node, stack []ast.Node)
		check := func(se *ast.SelectorExpr, stack []ast.Node) {
			f := fieldOf(se, recv)
			if f == "" || codec[f] == "" {
				return
			}
			want := printForms[codec[f]]
			if ex, has := printFormExceptions[base+"."+f]; has {
				want = ex
			} else if _, all := printFormExceptions[base+".*"]; all {
				return
			}
			if want == nil {
				return
			}
			// the innermost enclosing expressions, from the mention outwards, until one of the forms matches
			sites++
			for i := len(stack) - 1; i >= 0; i-- {
				var txt string
				switch x := stack[i].(type) {
				case *ast.CallExpr, *ast.IndexExpr, *ast.SelectorExpr:
					txt = strings.ReplaceAll(e.stmtText(x), recv+"."+f, "F")
				case *ast.ParenExpr, *ast.BinaryExpr:
					continue
				default:
					i = -1
					continue
				}
				for _, w := range want {
					if txt == w {
						return
					}
				}
				if len(txt) > 120 {
					break
				}
			}
			for _, w := range want {
				if w == "F" {
					return
				}
			}
			bad = append(bad, fmt.Sprintf("%s (%s) is not written as %s", f, codec[f], strings.Join(want, " or ")))
		}
		walk = func(n ast.Node, stack []ast.Node) {
			if n == nil {
				return
			}
			switch x := n.(type) {
			case *ast.IfStmt:
				walk(x.Init, nil)
				walk(x.Body, nil)
				walk(x.Else, nil)
				return
			case *ast.SwitchStmt:
				walk(x.Init, nil)
				walk(x.Body, nil)
				return
			case *ast.ForStmt:
				walk(x.Init, nil)
				walk(x.Body, nil)
				return
			case *ast.SelectorExpr:
				if f := fieldOf(x, recv); f != "" && codec[f] != "" {
					check(x, stack)
					return
				}
			}
			st2 := append(append([]ast.Node{}, stack...), n)
			ast.Inspect(n, func(m ast.Node) bool {
				if m == nil || m == n {
					return true
				}
				walk(m, st2)
				return false
			})
		}
		walk(fd.Body, nil)
		if sites == 0 {
			continue
		}
		fname := "(*" + n + ").String"
		ob := &Obligation{Fn: fname, Name: fname + "#text.form", Kind: "layout", Solver: "structural matcher (syntax tree of the current source)"}
		ob.Src = fmt.Sprintf("integers of %s are written in decimal, names through sprintName, strings through sprintTxt/sprintTxtOctet (%d sites)", n, sites)
		ob.Clause = &Clause{Label: "text.form", Src: ob.Src, File: st.File, Line: st.Line}
		if len(bad) == 0 {
			ob.Status = "proved"
		} else {
			ob.Status = "failed"
			ob.Output = strings.Join(bad, "; ")
			ob.Src += " -- " + ob.Output
		}
		if fn := e.funcs[fname]; fn != nil {
			ob.Pos = fn.Pos()
		}
		out = append(out, ob)
	}
	return out
}
