package main

import (
	"sort"
	"strconv"
	"fmt"
	"go/constant"
	"go/token"
	"math/big"
	"go/types"
	"strings"

	"golang.org/x/tools/go/ssa"
)

func (fc *FnCtx) instr(in ssa.Instruction, idx int) {
	switch x := in.(type) {
	case *ssa.DebugRef:
		fc.anchorAsserts(x)
	case *ssa.Alloc:
		fc.doAlloc(x)
	case *ssa.BinOp:
		fc.setVal(x, fc.binop(x))
	case *ssa.UnOp:
		fc.unop(x)
	case *ssa.Call:
		fc.callSiteClauses(x)
		fc.doCall(x, x.Common(), x)
		fc.recordCallRes(x)
	case *ssa.ChangeInterface:
		fc.setVal(x, Val{K: KIface, C: fc.val(x.X).C})
	case *ssa.ChangeType:
		v := fc.val(x.X)
		fc.setVal(x, Val{K: kindOf(x.Type()), C: v.C})
	case *ssa.Convert:
		fc.convert(x)
	case *ssa.MultiConvert:
		fc.setVal(x, fc.freshVal(x.Name(), x.Type()))
	case *ssa.Extract:
		tv := fc.val(x.Tuple)
		lo, hi, ft := fieldRange(x.Tuple.Type(), x.Index)
		fc.setVal(x, mkVal(ft, tv.C[lo:hi]))
	case *ssa.Field:
		sv := fc.val(x.X)
		lo, hi, ft := fieldRange(x.X.Type(), x.Field)
		fc.setVal(x, mkVal(ft, sv.C[lo:hi]))
	case *ssa.FieldAddr:
		base := fc.val(x.X).S()
		fc.nilCheck(base, x.Pos(), x.X)
		st := derefType(x.X.Type())
		l := fc.fieldLoc(base, st, x.Field)
		if _, isStruct := l.T.Underlying().(*types.Struct); isStruct {
			fc.setVal(x, mkVal(x.Type(), []string{l.ref}))
			return
		}
		// address of a non-struct field: only meaningful as the operand of a load/store
		if fc.addrEscapes(x) {
			fc.e.warn("%s: address of field %s.%s escapes; reads/writes through it are not tracked", fc.name, typeName(st), st.Underlying().(*types.Struct).Field(x.Field).Name())
		}
		fn := mangle("fa." + typeName(st) + "." + st.Underlying().(*types.Struct).Field(x.Field).Name())
		fc.declareFun(fn, "(Int) Int")
		fc.setVal(x, mkVal(x.Type(), []string{fmt.Sprintf("(%s %s)", fn, base)}))
		fc.assertGlobal(fmt.Sprintf("(< 0 (%s %s))", fn, base))
	case *ssa.Index:
		fc.doIndex(x)
	case *ssa.IndexAddr:
		fc.doIndexAddr(x)
	case *ssa.Lookup:
		fc.doLookup(x)
	case *ssa.MakeChan:
		fc.setVal(x, fc.allocRef(x.Name(), x.Type()))
	case *ssa.MakeClosure:
		fc.setVal(x, fc.allocRef(x.Name(), x.Type()))
	case *ssa.MakeInterface:
		fc.setVal(x, fc.makeIface(x.X.Type(), fc.val(x.X)))
	case *ssa.MakeMap:
		fc.makeMap(x)
	case *ssa.MakeSlice:
		fc.doMakeSlice(x)
	case *ssa.Next:
		fc.doNext(x)
	case *ssa.Range:
		fc.setVal(x, mkVal(x.Type(), []string{"0"}))
	case *ssa.Select:
		fc.setVal(x, fc.freshVal(x.Name(), x.Type()))
		fc.havocAll(&fc.cur)
	case *ssa.Slice:
		fc.doSlice(x)
	case *ssa.SliceToArrayPointer:
		v := fc.val(x.X)
		fc.setVal(x, mkVal(x.Type(), []string{v.C[0]}))
		fc.unsup("SliceToArrayPointer")
	case *ssa.TypeAssert:
		fc.doTypeAssert(x)
	case *ssa.Defer:
		fc.defers = append(fc.defers, x)
	case *ssa.Go:
		fc.callSiteClausesCommon(x.Common(), x.Pos())
		// the goroutine body runs concurrently: everything it may touch is unknown from here on
		for h := range fc.callMods(x.Common()) {
			if h == "*" {
				fc.havocAll(&fc.cur)
				break
			}
			fc.havocHeap(&fc.cur, h)
		}
	case *ssa.If, *ssa.Jump:
	case *ssa.MapUpdate:
		m := fc.val(x.Map).S()
		fc.oblige("nil", "map", fmt.Sprintf("(not (= %s 0))", m), x.Pos(), nil)
		fc.mapInvCheck(x)
		fc.mapUpdate(x)
	case *ssa.Panic:
		if fc.con == nil || !fc.con.MayPanic {
			fc.oblige("unreach", "panic", "false", x.Pos(), nil)
		}
	case *ssa.Return:
		fc.doReturn(x)
	case *ssa.RunDefers:
		fc.runDefers(x)
	case *ssa.Send:
		n := fc.getHeapTerm(&fc.cur, "$sends", SInt)
		fc.havocAll(&fc.cur)
		fc.cur.m["$sends"] = fmt.Sprintf("(+ %s 1)", n)
	case *ssa.Store:
		fc.doStore(x)
	default:
		fc.unsup("instruction %T", in)
		if v, ok := in.(ssa.Value); ok {
			fc.setVal(v, fc.freshVal(v.Name(), v.Type()))
		}
	}
}

func (fc *FnCtx) addrEscapes(v ssa.Value) bool {
	refs := v.Referrers()
	if refs == nil {
		return false
	}
	for _, r := range *refs {
		switch u := r.(type) {
		case *ssa.Store:
			if u.Addr == v && u.Val != v {
				continue
			}
			return true
		case *ssa.UnOp:
			if u.Op == token.MUL {
				continue
			}
			return true
		case *ssa.DebugRef:
			continue
		default:
			return true
		}
	}
	return false
}

func (fc *FnCtx) nilCheck(ref string, pos token.Pos, v ssa.Value) {
	if fc.knownNonNil(v) {
		return
	}
	fc.oblige("nil", v.Name(), fmt.Sprintf("(not (= %s 0))", ref), pos, nil)
}

func (fc *FnCtx) knownNonNil(v ssa.Value) bool {
	switch x := v.(type) {
	case *ssa.Alloc, *ssa.FieldAddr, *ssa.IndexAddr, *ssa.Global, *ssa.MakeMap, *ssa.MakeChan, *ssa.MakeClosure, *ssa.Function:
		return true
	case *ssa.Parameter:
		if fc.fn.Signature.Recv() != nil && len(fc.fn.Params) > 0 && fc.fn.Params[0] == x {
			return true
		}
	}
	return false
}

func (fc *FnCtx) allocRef(name string, t types.Type) Val {
	r := fc.fresh("new."+name, SInt)
	fc.declare("allocBase", SInt)
	fc.assertGlobal("(< 0 allocBase)")
	fc.assertGlobal(fmt.Sprintf("(<= allocBase %s)", r))
	for _, o := range fc.allocs {
		fc.assertGlobal(fmt.Sprintf("(not (= %s %s))", o, r))
		for _, sub := range fc.localSubs[o] {
			fc.assertGlobal(fmt.Sprintf("(not (= %s %s))", sub, r))
		}
	}
	fc.allocs = append(fc.allocs, r)
	fc.newIsNew(r)
	return mkVal(t, []string{r})
}

func constArrayOf(sort, zero string) string {
	return fmt.Sprintf("((as const %s) %s)", arrOf(sort), zero)
}

func (fc *FnCtx) doAlloc(x *ssa.Alloc) {
	rv := fc.allocRef(x.Name(), x.Type())
	fc.setVal(x, rv)
	fc.allocSite[x] = rv.S()
	t := derefType(x.Type())
	fc.zeroInit(t, rv.S())
}

func (fc *FnCtx) zeroInit(t types.Type, ref string) {
	if at, ok := t.Underlying().(*types.Array); ok {
		et := at.Elem()
		if _, isStruct := et.Underlying().(*types.Struct); isStruct {
			return // elements addressed through elem.T(ref, i); left unconstrained
		}
		sorts := sortsOf(et)
		names := compNames(et)
		zs := zeroComps(et)
		for i := range sorts {
			hn := "A." + typeName(et) + "." + names[i]
			cur := fc.getHeapTerm(&fc.cur, hn, arrOf(arrOf(sorts[i])))
			z := zs[i]
			if z == "zeroarr" {
				// array of strings: element arrays are themselves arrays; leave unconstrained
				continue
			}
			// fresh memory is zero already: an assumption about the (never before used) reference instead of
			// a heap update, so allocating does not change the heap anything else can observe
			fc.assumeHere(fmt.Sprintf("(= (select %s %s) %s)", cur, ref, constArrayOf(sorts[i], z)))
		}
		return
	}
	l := Loc{T: t, kind: "cell", heap: "M." + typeName(t), ref: ref}
	fc.storeLoc(&fc.cur, l, mkVal(t, zeroComps(t)))
}

// ---------------------------------------------------------------------------

func (fc *FnCtx) binop(x *ssa.BinOp) Val {
	a, b := fc.val(x.X), fc.val(x.Y)
	t := x.Type()
	xt := x.X.Type()
	switch x.Op {
	case token.EQL, token.NEQ:
		var eq string
		switch a.K {
		case KStr:
			eq = fc.strEq(a, b)
			fc.noteCmpString(a)
			fc.noteCmpString(b)
		case KIface:
			if b.K == KIface {
				// equal dynamic type and payload (payloads of boxed non-scalars compare by box identity: over-approximation flagged)
				eq = and(fmt.Sprintf("(= %s %s)", a.C[0], b.C[0]), fmt.Sprintf("(= %s %s)", a.C[1], b.C[1]))
			} else {
				eq = fmt.Sprintf("(= %s 0)", a.C[0])
			}
		case KSlice:
			eq = fmt.Sprintf("(= %s 0)", a.C[0]) // only comparison with nil is legal
			if !isNilConst(x.Y) {
				eq = fmt.Sprintf("(= %s 0)", b.C[0])
			}
		default:
			if len(a.C) != len(b.C) {
				fc.unsup("== on mismatched shapes")
				return fc.freshVal(x.Name(), t)
			}
			var parts []string
			for i := range a.C {
				parts = append(parts, fmt.Sprintf("(= %s %s)", a.C[i], b.C[i]))
			}
			eq = and(parts...)
			if a.K == KStruct {
				// struct equality with string fields: compare by content is not modelled
				fc.e.warn("%s: struct equality modelled component-wise", fc.name)
			}
		}
		if x.Op == token.NEQ {
			eq = not(eq)
		}
		return boolVal(eq)
	case token.LSS, token.LEQ, token.GTR, token.GEQ:
		op := map[token.Token]string{token.LSS: "<", token.LEQ: "<=", token.GTR: ">", token.GEQ: ">="}[x.Op]
		if a.K == KStr {
			return boolVal(fmt.Sprintf("(%s %s 0)", op, fc.strCmp(a, b)))
		}
		if isFloat(xt) {
			return fc.freshVal(x.Name(), t)
		}
		return boolVal(fmt.Sprintf("(%s %s %s)", op, a.S(), b.S()))
	}
	if a.K == KStr && x.Op == token.ADD {
		return fc.strConcat(a, b)
	}
	if a.K == KBool {
		switch x.Op {
		case token.AND, token.LAND:
			return boolVal(and(a.S(), b.S()))
		case token.OR, token.LOR:
			return boolVal(or(a.S(), b.S()))
		}
	}
	if isFloat(t) || a.K != KInt {
		return fc.freshVal(x.Name(), t)
	}
	_, signed, _ := intBits(t)
	var r string
	switch x.Op {
	case token.ADD:
		r = fc.arith(t, fmt.Sprintf("(+ %s %s)", a.S(), b.S()), x)
	case token.SUB:
		r = fc.arith(t, fmt.Sprintf("(- %s %s)", a.S(), b.S()), x)
	case token.MUL:
		r = fc.arith(t, fmt.Sprintf("(* %s %s)", a.S(), b.S()), x)
	case token.QUO:
		fc.oblige("div", x.Name(), fmt.Sprintf("(not (= %s 0))", b.S()), x.Pos(), nil)
		if signed {
			r = wrap(t, fc.goDiv(a.S(), b.S()))
		} else {
			r = udiv(a.S(), b.S())
		}
	case token.REM:
		fc.oblige("div", x.Name(), fmt.Sprintf("(not (= %s 0))", b.S()), x.Pos(), nil)
		if signed {
			r = fc.goRem(a.S(), b.S())
		} else {
			r = umod(a.S(), b.S())
		}
	case token.AND:
		r = fc.bitAndT(t, a.S(), b.S())
	case token.OR:
		if sa, sb := bitSupport(x.X, 0), bitSupport(x.Y, 0); sa != nil && sb != nil && new(big.Int).And(sa, sb).Sign() == 0 {
			// the operands cannot have a bit in common (constant masks, shifts and operand widths say so): | is +
			r = fmt.Sprintf("(+ %s %s)", a.S(), b.S())
		} else {
			r = fc.bitOrT(t, a.S(), b.S())
		}
	case token.XOR:
		r = fc.bitXorT(t, a.S(), b.S())
	case token.AND_NOT:
		r = fc.bitAndT(t, a.S(), fc.bitNotT(t, b.S()))
	case token.SHL:
		// shift counts are unsigned or checked non-negative by the compiler (panic on negative)
		if _, sgn, _ := intBits(x.Y.Type()); sgn {
			if _, isConst := x.Y.(*ssa.Const); !isConst {
				fc.oblige("shift", x.Name(), fmt.Sprintf("(<= 0 %s)", b.S()), x.Pos(), nil)
			}
		}
		bits, _, _ := intBits(t)
		sh := fc.shiftLeft(a.S(), b.S())
		if _, isLit := litOf(b.S()); !isLit {
			sh = ite(fmt.Sprintf("(>= %s %d)", b.S(), bits), "0", sh)
		}
		r = wrap(t, sh)
	case token.SHR:
		if _, sgn, _ := intBits(x.Y.Type()); sgn {
			if _, isConst := x.Y.(*ssa.Const); !isConst {
				fc.oblige("shift", x.Name(), fmt.Sprintf("(<= 0 %s)", b.S()), x.Pos(), nil)
			}
		}
		r = fc.shiftRight(a.S(), b.S())
	default:
		fc.unsup("binop %s", x.Op)
		return fc.freshVal(x.Name(), t)
	}
	return mkVal(t, []string{r})
}

func isNilConst(v ssa.Value) bool {
	c, ok := v.(*ssa.Const)
	return ok && c.Value == nil
}

func isFloat(t types.Type) bool {
	b, ok := t.Underlying().(*types.Basic)
	return ok && b.Info()&(types.IsFloat|types.IsComplex) != 0
}

// bit operations on typed operands: signed negative operands are first mapped to their two's complement
func (fc *FnCtx) toUnsigned(t types.Type, a string) string {
	bits, signed, _ := intBits(t)
	if !signed {
		return a
	}
	if n, ok := litOf(a); ok && n.Sign() >= 0 {
		return a
	}
	return fmt.Sprintf("(mod %s %s)", a, pow2s(bits))
}

func (fc *FnCtx) fromUnsigned(t types.Type, a string) string {
	bits, signed, _ := intBits(t)
	if !signed {
		return a
	}
	h := pow2s(bits - 1)
	return fmt.Sprintf("(ite (< %s %s) %s (- %s %s))", a, h, a, a, pow2s(bits))
}

func (fc *FnCtx) bitAndT(t types.Type, a, b string) string {
	_, signed, _ := intBits(t)
	if !signed {
		return fc.bitAnd(a, b)
	}
	// a & nonneg-constant is non-negative and needs no conversion back
	if n, ok := litOf(b); ok && n.Sign() >= 0 {
		return fc.bitAnd(a, b)
	}
	if n, ok := litOf(a); ok && n.Sign() >= 0 {
		return fc.bitAnd(b, a)
	}
	return fc.fromUnsigned(t, fc.bitAnd(fc.toUnsigned(t, a), fc.toUnsigned(t, b)))
}

func (fc *FnCtx) bitOrT(t types.Type, a, b string) string {
	_, signed, _ := intBits(t)
	if !signed {
		return fc.bitOr(a, b)
	}
	return fc.fromUnsigned(t, fc.bitOr(fc.toUnsigned(t, a), fc.toUnsigned(t, b)))
}

func (fc *FnCtx) bitXorT(t types.Type, a, b string) string {
	_, signed, _ := intBits(t)
	if !signed {
		return fc.bitXor(a, b)
	}
	return fc.fromUnsigned(t, fc.bitXor(fc.toUnsigned(t, a), fc.toUnsigned(t, b)))
}

func (fc *FnCtx) bitNotT(t types.Type, a string) string {
	bits, signed, _ := intBits(t)
	if signed {
		return fmt.Sprintf("(- (- %s) 1)", a)
	}
	if n, ok := litOf(a); ok && n.Sign() >= 0 {
		full := new(big.Int).Sub(new(big.Int).Lsh(big.NewInt(1), uint(bits)), big.NewInt(1))
		return bigLit(full.Sub(full, n))
	}
	return fmt.Sprintf("(- %s 1 %s)", pow2s(bits), a)
}

func (fc *FnCtx) strConcat(a, b Val) Val {
	arr := fc.fresh("cat", SArr)
	ln := fmt.Sprintf("(+ %s %s)", a.C[2], b.C[2])
	fc.nfresh++
	q := fmt.Sprintf("k!q%d", fc.nfresh)
	fc.assertGlobal(fmt.Sprintf("(forall ((%s Int)) (! (=> (and (<= 0 %s) (< %s %s)) (= (select %s %s) (select %s (+ %s %s)))) :pattern ((select %s %s))))",
		q, q, q, a.C[2], arr, q, a.C[0], a.C[1], q, arr, q))
	fc.nfresh++
	q2 := fmt.Sprintf("k!q%d", fc.nfresh)
	fc.assertGlobal(fmt.Sprintf("(forall ((%s Int)) (! (=> (and (<= 0 %s) (< %s %s)) (= (select %s (+ %s %s)) (select %s (+ %s %s)))) :pattern ((select %s (+ %s %s)))))",
		q2, q2, q2, b.C[2], arr, a.C[2], q2, b.C[0], b.C[1], q2, arr, a.C[2], q2))
	// the same fact read from the side of the result's index (so that a goal about cat[j] finds it)
	fc.nfresh++
	q3 := fmt.Sprintf("k!q%d", fc.nfresh)
	fc.assertGlobal(fmt.Sprintf("(forall ((%s Int)) (! (=> (and (<= %s %s) (< %s %s)) (= (select %s %s) (select %s (+ %s (- %s %s))))) :pattern ((select %s %s))))",
		q3, a.C[2], q3, q3, ln, arr, q3, b.C[0], b.C[1], q3, a.C[2], arr, q3))
	return Val{K: KStr, T: a.T, C: []string{arr, "0", ln}}
}

func (fc *FnCtx) unop(x *ssa.UnOp) {
	switch x.Op {
	case token.MUL: // load
		if g, ok := x.X.(*ssa.Global); ok {
			fc.setVal(x, fc.loadGlobal(g, x))
			return
		}
		ref := fc.val(x.X).S()
		fc.nilCheck(ref, x.Pos(), x.X)
		l := fc.locOf(x.X)
		v := fc.loadLoc(&fc.cur, l)
		fc.setVal(x, v)
		fc.assert(fc.typeInv(fc.vals[x]))
		if _, local := x.X.(*ssa.Alloc); !local {
			fc.noAliasLocal(fc.vals[x])
		}
		fc.recordExisting(fc.vals[x])
	case token.NOT:
		fc.setVal(x, boolVal(not(fc.val(x.X).S())))
	case token.SUB:
		if isFloat(x.Type()) {
			fc.setVal(x, fc.freshVal(x.Name(), x.Type()))
			return
		}
		fc.setVal(x, mkVal(x.Type(), []string{wrap(x.Type(), "(- "+fc.val(x.X).S()+")")}))
	case token.XOR:
		fc.setVal(x, mkVal(x.Type(), []string{fc.bitNotT(x.Type(), fc.val(x.X).S())}))
	case token.ARROW:
		fc.setVal(x, fc.freshVal(x.Name(), x.Type()))
		fc.havocAll(&fc.cur)
	default:
		fc.unsup("unop %s", x.Op)
		fc.setVal(x, fc.freshVal(x.Name(), x.Type()))
	}
}

// loadGlobal: package-level variables hold unknown values (type invariants only), except that a few
// immutable tables are recognised by contract (see tables.go).
func (fc *FnCtx) loadGlobal(g *ssa.Global, x *ssa.UnOp) Val {
	t := derefType(g.Type())
	key := "gv." + g.Pkg.Pkg.Name() + "." + g.Name()
	if iv, ok := fc.e.initOnlyGlobal(g); ok {
		// assigned once in init() and nowhere else: a constant object
		if mi, isMI := iv.(*ssa.MakeInterface); isMI && kindOf(t) == KIface {
			name := mangle("gconst." + g.Pkg.Pkg.Name() + "." + g.Name())
			fc.declare(name, SInt)
			fc.assertGlobal(fmt.Sprintf("(< 0 %s)", name))
			return Val{K: KIface, T: t, C: []string{fmt.Sprint(fc.e.typeTag(mi.X.Type())), name}}
		}
		if kindOf(t) == KPtr || kindOf(t) == KIface {
			// e.g. maps and pointers built in init: non-nil, fixed identity
			if _, isMap := t.Underlying().(*types.Map); isMap {
				name := mangle("gconst." + g.Pkg.Pkg.Name() + "." + g.Name())
				fc.declare(name, SInt)
				fc.assertGlobal(fmt.Sprintf("(< 0 %s)", name))
				return mkVal(t, []string{name})
			}
		}
	}
	if _, isStruct := t.Underlying().(*types.Struct); isStruct || kindOf(t) == KOpaque {
		return fc.freshVal(key, t)
	}
	l := Loc{T: t, kind: "cell", heap: "G." + mangle(g.Pkg.Pkg.Name()+"."+g.Name()), ref: "0"}
	v := fc.loadLoc(&fc.cur, l)
	return v
}

func (fc *FnCtx) doStore(x *ssa.Store) {
	if g, ok := x.Addr.(*ssa.Global); ok {
		t := derefType(g.Type())
		if _, isStruct := t.Underlying().(*types.Struct); isStruct || kindOf(t) == KOpaque {
			return
		}
		l := Loc{T: t, kind: "cell", heap: "G." + mangle(g.Pkg.Pkg.Name()+"."+g.Name()), ref: "0"}
		fc.storeLoc(&fc.cur, l, fc.val(x.Val))
		return
	}
	ref := fc.val(x.Addr).S()
	fc.nilCheck(ref, x.Pos(), x.Addr)
	l := fc.locOf(x.Addr)
	v := fc.val(x.Val)
	fc.storedAsserts(x, v)
	if len(v.C) != len(sortsOf(l.T)) {
		fc.unsup("store shape mismatch at %s", fc.e.fset.Position(x.Pos()))
		return
	}
	fc.storeLoc(&fc.cur, l, v)
}

func (fc *FnCtx) convert(x *ssa.Convert) {
	from, to := x.X.Type(), x.Type()
	v := fc.val(x.X)
	fk, tk := kindOf(from), kindOf(to)
	switch {
	case fk == KInt && tk == KInt:
		if isFloat(from) || isFloat(to) {
			if isFloat(from) && isFloat(to) {
				fc.setVal(x, mkVal(to, v.C))
				return
			}
			fn := mangle("conv." + typeName(from) + "." + typeName(to))
			fc.declareFun(fn, "(Int) Int")
			r := mkVal(to, []string{fmt.Sprintf("(%s %s)", fn, v.S())})
			fc.setVal(x, r)
			if ra := rangeAssume(to, fc.vals[x].S()); ra != "" {
				fc.assert(ra)
			}
			return
		}
		fc.setVal(x, mkVal(to, []string{fc.convInt(from, to, v.S())}))
	case fk == KSlice && tk == KStr: // string(bytes)
		et := from.Underlying().(*types.Slice).Elem()
		hn := "A." + typeName(et) + ".v"
		if kindOf(et) != KInt || typeName(et) != "uint8" {
			fc.setVal(x, fc.freshVal(x.Name(), to))
			return
		}
		arr := fmt.Sprintf("(select %s %s)", fc.getHeapTerm(&fc.cur, hn, arrOf(arrOf(SInt))), v.C[0])
		fc.setVal(x, mkVal(to, []string{arr, v.C[1], v.C[2]}))
	case fk == KStr && tk == KSlice: // []byte(s)
		et := to.Underlying().(*types.Slice).Elem()
		if typeName(et) != "uint8" {
			fc.setVal(x, fc.freshVal(x.Name(), to))
			return
		}
		r := fc.allocRef(x.Name(), to)
		hn := "A.uint8.v"
		cur := fc.getHeapTerm(&fc.cur, hn, arrOf(arrOf(SInt)))
		fc.heapSet(&fc.cur, hn, arrOf(arrOf(SInt)), fmt.Sprintf("(store %s %s %s)", cur, r.S(), v.C[0]))
		// an empty string may convert to a nil-or-empty slice; keep ref non-nil (Go allocates or uses a zero-size base)
		fc.setVal(x, mkVal(to, []string{r.S(), v.C[1], v.C[2], v.C[2]}))
	case fk == KInt && tk == KStr: // string(rune)
		r := fc.freshVal(x.Name(), to)
		fc.assert(fmt.Sprintf("(and (<= 1 %s) (<= %s 4))", r.C[2], r.C[2]))
		fc.setVal(x, r)
	case fk == KPtr && tk == KPtr:
		fc.setVal(x, mkVal(to, v.C))
	default:
		fc.unsup("convert %v -> %v", from, to)
		fc.setVal(x, fc.freshVal(x.Name(), to))
	}
}

func (fc *FnCtx) convInt(from, to types.Type, v string) string {
	fb, fs, ok1 := intBits(from)
	tb, ts, ok2 := intBits(to)
	if !ok1 || !ok2 {
		return v
	}
	// widening within the same signedness, or unsigned -> wider signed: identity
	if fs == ts && tb >= fb {
		return v
	}
	if !fs && ts && tb > fb {
		return v
	}
	if n, ok := litOf(v); ok {
		_ = n
	}
	if ts && tb == 64 {
		// to int/int64 from uint64: two's complement
		return fmt.Sprintf("(ite (< %s %s) %s (- %s %s))", v, pow2s(63), v, v, pow2s(64))
	}
	return wrap(to, v)
}

func (fc *FnCtx) makeIface(t types.Type, v Val) Val {
	tag := fmt.Sprint(fc.e.typeTag(t))
	switch v.K {
	case KPtr, KInt:
		return Val{K: KIface, C: []string{tag, v.C[0]}}
	case KBool:
		return Val{K: KIface, C: []string{tag, ite(v.C[0], "1", "0")}}
	}
	// boxed composite: payload identified by an uninterpreted box function of the components
	sorts := sortsOf(t)
	fn := mangle("box." + typeName(t))
	fc.declareFun(fn, "("+strings.Join(sorts, " ")+") Int")
	return Val{K: KIface, C: []string{tag, "(" + fn + " " + strings.Join(v.C, " ") + ")"}}
}

func (fc *FnCtx) doTypeAssert(x *ssa.TypeAssert) {
	v := fc.val(x.X)
	at := x.AssertedType
	var ok string
	var res Val
	if types.IsInterface(at) {
		// interface-to-interface: holds iff the dynamic type implements the interface
		fn := mangle("implements." + typeName(at))
		fc.declareFun(fn, "(Int) Bool")
		ok = fmt.Sprintf("(and (not (= %s 0)) (%s %s))", v.C[0], fn, v.C[0])
		// statically known: if the source interface type itself implements the target, any non-nil value does
		if types.Implements(x.X.Type(), at.Underlying().(*types.Interface)) {
			ok = fmt.Sprintf("(not (= %s 0))", v.C[0])
		}
		res = Val{K: KIface, T: at, C: v.C}
	} else {
		ok = fmt.Sprintf("(= %s %d)", v.C[0], fc.e.typeTag(at))
		switch kindOf(at) {
		case KPtr, KInt:
			res = mkVal(at, []string{v.C[1]})
		case KBool:
			res = mkVal(at, []string{fmt.Sprintf("(= %s 1)", v.C[1])})
		default:
			res = fc.freshVal(x.Name()+".unbox", at)
			fn := mangle("box." + typeName(at))
			fc.declareFun(fn, "("+strings.Join(sortsOf(at), " ")+") Int")
			fc.assert(implies(ok, fmt.Sprintf("(= (%s %s) %s)", fn, strings.Join(res.C, " "), v.C[1])))
		}
	}
	if x.CommaOk {
		// on failure the result is the zero value
		z := zeroComps(at)
		comps := make([]string, 0, len(res.C)+1)
		for i := range res.C {
			comps = append(comps, ite(ok, res.C[i], z[i]))
		}
		comps = append(comps, ok)
		fc.setVal(x, mkVal(x.Type(), comps))
		if kindOf(at) == KPtr {
			// a typed non-nil interface can still hold a nil pointer; nothing assumed
		}
		return
	}
	fc.oblige("tassert", x.Name(), ok, x.Pos(), nil)
	fc.setVal(x, res)
	if ra := fc.typeInv(fc.vals[x]); ra != "" {
		fc.assert(ra)
	}
}

// ---------------------------------------------------------------------------
// indexing and slicing

func (fc *FnCtx) doIndex(x *ssa.Index) {
	xv := fc.val(x.X)
	iv := fc.val(x.Index).S()
	switch xv.K {
	case KStr:
		fc.oblige("bounds", x.Name(), fmt.Sprintf("(and (<= 0 %s) (< %s %s))", iv, iv, xv.C[2]), x.Pos(), nil)
		r := fmt.Sprintf("(select %s (+ %s %s))", xv.C[0], xv.C[1], iv)
		fc.setVal(x, mkVal(x.Type(), []string{r}))
		fc.assert(rangeAssume(x.Type(), fc.vals[x].S()))
	default:
		// array value
		if at, ok := x.X.Type().Underlying().(*types.Array); ok {
			fc.oblige("bounds", x.Name(), fmt.Sprintf("(and (<= 0 %s) (< %s %d))", iv, iv, at.Len()), x.Pos(), nil)
		}
		fc.setVal(x, fc.freshVal(x.Name(), x.Type()))
	}
}

func (fc *FnCtx) doIndexAddr(x *ssa.IndexAddr) {
	xv := fc.val(x.X)
	iv := fc.val(x.Index).S()
	var ln string
	switch u := x.X.Type().Underlying().(type) {
	case *types.Slice:
		ln = xv.C[2]
	case *types.Pointer:
		fc.nilCheck(xv.C[0], x.Pos(), x.X)
		ln = fmt.Sprint(u.Elem().Underlying().(*types.Array).Len())
	}
	fc.oblige("bounds", x.Name(), fmt.Sprintf("(and (<= 0 %s) (< %s %s))", iv, iv, ln), x.Pos(), nil)
	l := fc.locOf(x)
	if _, isStruct := l.T.Underlying().(*types.Struct); isStruct {
		fc.setVal(x, mkVal(x.Type(), []string{l.objRef(fc)}))
		return
	}
	if fc.addrEscapes(x) {
		fc.e.warn("%s: address of a slice element escapes; reads/writes through it are not tracked", fc.name)
	}
	fn := mangle("ea." + typeName(l.T))
	fc.declareFun(fn, "(Int Int) Int")
	fc.setVal(x, mkVal(x.Type(), []string{fmt.Sprintf("(%s %s %s)", fn, l.ref, l.idx)}))
	fc.assertGlobal(fmt.Sprintf("(< 0 %s)", fc.vals[x].S()))
}

func (fc *FnCtx) doLookup(x *ssa.Lookup) {
	xv := fc.val(x.X)
	if xv.K == KStr {
		iv := fc.val(x.Index).S()
		fc.oblige("bounds", x.Name(), fmt.Sprintf("(and (<= 0 %s) (< %s %s))", iv, iv, xv.C[2]), x.Pos(), nil)
		r := fmt.Sprintf("(select %s (+ %s %s))", xv.C[0], xv.C[1], iv)
		fc.setVal(x, mkVal(x.Type(), []string{r}))
		fc.assert(rangeAssume(x.Type(), fc.vals[x].S()))
		return
	}
	fc.mapLookup(x)
}

func (fc *FnCtx) doSlice(x *ssa.Slice) {
	xv := fc.val(x.X)
	lo := "0"
	if x.Low != nil {
		lo = fc.val(x.Low).S()
	}
	switch u := x.X.Type().Underlying().(type) {
	case *types.Basic: // string
		hi := xv.C[2]
		if x.High != nil {
			hi = fc.val(x.High).S()
		}
		fc.oblige("bounds", x.Name(), fmt.Sprintf("(and (<= 0 %s) (<= %s %s) (<= %s %s))", lo, lo, hi, hi, xv.C[2]), x.Pos(), nil)
		fc.setVal(x, mkVal(x.Type(), []string{xv.C[0], fmt.Sprintf("(+ %s %s)", xv.C[1], lo), fmt.Sprintf("(- %s %s)", hi, lo)}))
	case *types.Slice:
		hi := xv.C[2]
		if x.High != nil {
			hi = fc.val(x.High).S()
		}
		mx := xv.C[3]
		if x.Max != nil {
			mx = fc.val(x.Max).S()
			fc.oblige("bounds", x.Name(), fmt.Sprintf("(and (<= 0 %s) (<= %s %s) (<= %s %s) (<= %s %s))", lo, lo, hi, hi, mx, mx, xv.C[3]), x.Pos(), nil)
		} else {
			fc.oblige("bounds", x.Name(), fmt.Sprintf("(and (<= 0 %s) (<= %s %s) (<= %s %s))", lo, lo, hi, hi, xv.C[3]), x.Pos(), nil)
		}
		fc.setVal(x, mkVal(x.Type(), []string{xv.C[0], fmt.Sprintf("(+ %s %s)", xv.C[1], lo), fmt.Sprintf("(- %s %s)", hi, lo), fmt.Sprintf("(- %s %s)", mx, lo)}))
	case *types.Pointer: // pointer to array
		n := fmt.Sprint(u.Elem().Underlying().(*types.Array).Len())
		hi := n
		if x.High != nil {
			hi = fc.val(x.High).S()
		}
		fc.nilCheck(xv.C[0], x.Pos(), x.X)
		if f := fc.familyOf[x]; f != nil && f.root == ssa.Value(x) {
			f.c = xv.C[0]
		}
		fc.oblige("bounds", x.Name(), fmt.Sprintf("(and (<= 0 %s) (<= %s %s) (<= %s %s))", lo, lo, hi, hi, n), x.Pos(), nil)
		fc.setVal(x, mkVal(x.Type(), []string{xv.C[0], lo, fmt.Sprintf("(- %s %s)", hi, lo), fmt.Sprintf("(- %s %s)", n, lo)}))
	default:
		fc.unsup("slice of %v", x.X.Type())
		fc.setVal(x, fc.freshVal(x.Name(), x.Type()))
	}
}

func (fc *FnCtx) doMakeSlice(x *ssa.MakeSlice) {
	ln, cp := fc.val(x.Len).S(), fc.val(x.Cap).S()
	fc.oblige("bounds", "make", fmt.Sprintf("(and (<= 0 %s) (<= %s %s))", ln, ln, cp), x.Pos(), nil)
	fc.allocCheck(cp, x.Pos())
	r := fc.allocRef(x.Name(), x.Type())
	fc.allocSite[x] = r.S()
	if f := fc.familyOf[x]; f != nil && f.root == ssa.Value(x) {
		f.c = r.S()
	}
	et := x.Type().Underlying().(*types.Slice).Elem()
	fc.zeroInit(types.NewArray(et, 0), r.S())
	fc.setVal(x, mkVal(x.Type(), []string{r.S(), "0", ln, cp}))
}

// allocCheck: optional obligation that an allocation size is bounded as the contract says (opt alloc-bound = expr).
func (fc *FnCtx) allocCheck(size string, pos token.Pos) {
	if fc.con == nil {
		return
	}
	b, ok := fc.con.Opts["alloc-bound"]
	if !ok {
		return
	}
	e, err := parseExpr(b)
	if err != nil {
		fc.fail("alloc-bound: %v", err)
	}
	bound := fc.evalExpr(e, fc.entryEnv()).S()
	fc.oblige("alloc", "", fmt.Sprintf("(<= %s %s)", size, bound), pos, nil)
}

func (fc *FnCtx) doNext(x *ssa.Next) {
	r := fc.freshVal(x.Name(), x.Type())
	fc.setVal(x, r)
	if x.IsString {
		// (ok, index, rune)
		rg := x.Iter.(*ssa.Range)
		s := fc.val(rg.X)
		v := fc.vals[x]
		fc.assert(implies(v.C[0], fmt.Sprintf("(and (<= 0 %s) (< %s %s) (<= 0 %s) (<= %s 1114111))", v.C[1], v.C[1], s.C[2], v.C[2], v.C[2])))
	}
}

// ---------------------------------------------------------------------------
// returns and deferred calls

func (fc *FnCtx) doReturn(x *ssa.Return) {
	if fc.con == nil {
		return
	}
	fc.anchorAssertsAt(x.Pos())
	env := fc.returnEnv(x.Results)
	for i := range fc.con.Ensures {
		cl := &fc.con.Ensures[i]
		f := fc.evalBool(cl.E, env)
		fc.oblige("post", cl.Label, f, x.Pos(), cl)
	}
	// a `fresh` tag on a function of the module is an obligation on its body (for externs it is trusted)
	if fc.con.Fresh && fc.con.Kind == "func" {
		fc.declare("allocBase", SInt)
		for _, r := range x.Results {
			v := fc.val(r)
			var ref string
			switch v.K {
			case KSlice, KPtr:
				ref = v.C[0]
			case KIface:
				ref = v.C[1]
			default:
				continue
			}
			fc.oblige("post", "fresh", fmt.Sprintf("(or (= %s 0) (>= %s allocBase))", ref, ref), x.Pos(), nil)
		}
	}
	// exit clauses may mention local variables; they are checked at every return where those are defined
	for i := range fc.con.Exits {
		cl := &fc.con.Exits[i]
		f, ok := fc.tryEvalBool(cl.E, env)
		if !ok {
			continue
		}
		if fc.exitBound == nil {
			fc.exitBound = map[int]bool{}
		}
		fc.exitBound[i] = true
		fc.oblige("exit", cl.Label, f, x.Pos(), cl)
	}
}

func (fc *FnCtx) returnEnv(results []ssa.Value) *Env {
	sig := fc.fn.Signature
	return &Env{fc: fc, heap: &fc.cur, old: &fc.entry, oldLookup: fc.paramLookup,
		lookup: func(name string) (Val, bool) {
			for i := 0; i < sig.Results().Len(); i++ {
				if i >= len(results) {
					break
				}
				rn := sig.Results().At(i).Name()
				if (rn != "" && rn != "_" && rn == name) || name == fmt.Sprintf("ret%d", i) {
					return fc.val(results[i]), true
				}
			}
			if name == "result" && len(results) == 1 {
				return fc.val(results[0]), true
			}
			if v, ok := fc.paramLookup(name); ok {
				return v, true
			}
			if fc.allowLocals {
				if g, ok := fc.ghosts[name]; ok {
					if ab := fc.ghostAt[name]; ab != nil && (ab == fc.curBlock || ab.Dominates(fc.curBlock)) {
						return g, true
					}
					return Val{}, false
				}
				return fc.resolveVar(name, fc.curBlock, fc.curIdx, &fc.cur)
			}
			return Val{}, false
		}}
}

func (fc *FnCtx) runDefers(x *ssa.RunDefers) {
	if len(fc.defers) == 0 {
		return
	}
	// deferred calls run in reverse order; each is treated like an ordinary call at this point
	for i := len(fc.defers) - 1; i >= 0; i-- {
		d := fc.defers[i]
		fc.doCall(nil, d.Common(), d)
	}
}

// anchorAsserts: contract "assert at" clauses bind to the first debug reference on a source line containing the anchor text.
func (fc *FnCtx) anchorAsserts(d *ssa.DebugRef) {
	fc.anchorAssertsAt(d.Expr.Pos())
}

// anchorAssertsAt: ... or to a return statement on such a line that mentions no variable (`return nil`).
func (fc *FnCtx) anchorAssertsAt(pos token.Pos) {
	if fc.con == nil || len(fc.con.Asserts) == 0 || !pos.IsValid() {
		return
	}
	for i := range fc.con.Asserts {
		a := &fc.con.Asserts[i]
		if !fc.anchorMatches(a.Anchor, pos) {
			continue
		}
		if a.After && !fc.lastRefOnLine(pos) {
			continue
		}
		key := fmt.Sprintf("%d@%d", i, fc.e.fset.Position(pos).Line)
		if fc.anchorsDone == nil {
			fc.anchorsDone = map[string]bool{}
		}
		if fc.anchorsDone[key] {
			continue
		}
		env := fc.pointEnv(fc.curBlock)
		if !a.Apply && a.Ghost == "" {
			// a clause naming a variable that the anchored line itself defines binds at the first point of the
			// line where every name it mentions is defined
			if _, ok := fc.tryEvalBool(a.C.E, env); !ok {
				continue
			}
		}
		fc.anchorsDone[key] = true
		fc.anchorsDone[fmt.Sprintf("assertok:%d", i)] = true
		if a.Apply {
			fc.applyLemma(a.C.E.(*ECall), env)
			continue
		}
		if a.Ghost != "" {
			v := fc.evalExpr(a.C.E, env)
			// a ghost of a []byte is a snapshot of its octets at this point (a string value), not an alias of the
			// slice: later stores through the slice do not change it
			if v.K == KSlice && v.T != nil {
				if st, ok := v.T.Underlying().(*types.Slice); ok && kindOf(st.Elem()) == KInt && typeName(st.Elem()) == "uint8" {
					arr := fmt.Sprintf("(select %s %s)", fc.getHeapTerm(&fc.cur, "A.uint8.v", arrOf(arrOf(SInt))), v.C[0])
					v = mkVal(types.Typ[types.String], []string{arr, v.C[1], v.C[2]})
				}
			}
			g := fc.freshVal("ghost."+a.Ghost, v.T)
			g.K = v.K
			if len(g.C) != len(v.C) {
				fc.fail("ghost %s: unsupported value shape", a.Ghost)
			}
			// g is fresh and defined at this one point: the defining equations are a conservative extension and may
			// be global, so that they survive the cut at a later loop head (ghosts in loop invariants)
			for k := range v.C {
				fc.assertGlobal(fmt.Sprintf("(= %s %s)", g.C[k], v.C[k]))
			}
			if fc.ghosts == nil {
				fc.ghosts = map[string]Val{}
			}
			fc.ghosts[a.Ghost] = g
			if fc.ghostAt == nil {
				fc.ghostAt = map[string]*ssa.BasicBlock{}
			}
			fc.ghostAt[a.Ghost] = fc.curBlock
			continue
		}
		f := fc.evalBool(a.C.E, env)
		if a.Assume {
			fc.assumeHere(f)
			fc.e.assume("%s: assume at %q: %s", fc.name, a.Anchor, a.C.Src)
		} else {
			fc.oblige("assert", a.C.Label, f, pos, &a.C)
		}
	}
}

// lastRefOnLine: no later variable reference of the current block lies on the source line of pos (for an
// assignment that is the reference to its left-hand side, which carries the new value).
func (fc *FnCtx) lastRefOnLine(pos token.Pos) bool {
	line := fc.e.fset.Position(pos).Line
	for _, in := range fc.curBlock.Instrs[fc.curIdx+1:] {
		if d, ok := in.(*ssa.DebugRef); ok && fc.e.fset.Position(d.Expr.Pos()).Line == line {
			return false
		}
	}
	return true
}

// pointEnv resolves names at the current point inside block b: the latest debug reference seen so far.
func (fc *FnCtx) pointEnv(b *ssa.BasicBlock) *Env {
	return &Env{fc: fc, heap: &fc.cur, old: &fc.entry, oldLookup: fc.paramLookup,
		lookup: func(name string) (Val, bool) {
			if g, ok := fc.ghosts[name]; ok {
				return g, true
			}
			return fc.resolveVar(name, b, fc.curIdx, &fc.cur)
		}}
}

// tryEvalBool evaluates an exit clause; ok is false when it mentions a local that is not defined here.
func (fc *FnCtx) tryEvalBool(e Expr, env *Env) (f string, ok bool) {
	fc.allowLocals = true
	defer func() {
		fc.allowLocals = false
		if r := recover(); r != nil {
			if ve, isVC := r.(vcError); isVC && strings.Contains(ve.msg, "unknown identifier") {
				ok = false
				return
			}
			panic(r)
		}
	}()
	return fc.evalBool(e, env), true
}

// storedAsserts: `stored at "anchor" expr` clauses bind to the store whose value expression is written on a
// source line containing the anchor text.
func (fc *FnCtx) storedAsserts(x *ssa.Store, v Val) {
	if fc.con == nil || len(fc.con.Stored) == 0 {
		return
	}
	pos := x.Pos()
	if vi, ok := x.Val.(ssa.Instruction); ok && vi.Pos().IsValid() {
		pos = vi.Pos()
	}
	for i := range fc.con.Stored {
		a := &fc.con.Stored[i]
		if !fc.anchorMatches(a.Anchor, pos) && !(x.Pos().IsValid() && fc.anchorMatches(a.Anchor, x.Pos())) {
			continue
		}
		if fc.anchorsDone == nil {
			fc.anchorsDone = map[string]bool{}
		}
		fc.anchorsDone["stored:"+a.Anchor] = true
		base := fc.pointEnv(fc.curBlock)
		env := *base
		inner := base.lookup
		env.lookup = func(name string) (Val, bool) {
			if name == "value" {
				return v, true // the value being stored
			}
			return inner(name)
		}
		want, okEval := fc.tryEvalStored(a.C.E, &env)
		if !okEval {
			// several stores may share the anchored line (the fields of a composite literal and the assignment
			// itself): the clause speaks about the one whose value it can be evaluated on
			continue
		}
		fc.anchorsDone["storedok:"+a.Anchor] = true
		if want.K == KBool && v.K != KBool {
			// a predicate over `value` rather than the expected value itself
			fc.oblige("stored", a.C.Label, want.S(), pos, &a.C)
			continue
		}
		if len(want.C) != len(v.C) {
			fc.fail("stored at %q: value shape mismatch", a.Anchor)
		}
		var parts []string
		for k := range want.C {
			parts = append(parts, fmt.Sprintf("(= %s %s)", v.C[k], want.C[k]))
		}
		fc.oblige("stored", a.C.Label, and(parts...), pos, &a.C)
	}
}

// anchorMatches: the source line at pos contains the anchor text.  An anchor "text@N" selects the N-th
// (1-based, in source order) line of the function that contains text.
func (fc *FnCtx) anchorMatches(anchor string, pos token.Pos) bool {
	text, nth := splitAnchor(anchor)
	if !strings.Contains(fc.e.srcLine(pos), text) {
		return false
	}
	if nth == 0 {
		return true
	}
	ls := fc.anchorLines(text)
	return nth <= len(ls) && ls[nth-1] == fc.e.fset.Position(pos).Line
}

func splitAnchor(anchor string) (string, int) {
	if i := strings.LastIndex(anchor, "@"); i > 0 {
		if n, err := strconv.Atoi(anchor[i+1:]); err == nil && n > 0 {
			return anchor[:i], n
		}
	}
	return anchor, 0
}

// anchorLines: ascending line numbers of the function's instructions whose source line contains text.
func (fc *FnCtx) anchorLines(text string) []int {
	seen := map[int]bool{}
	var out []int
	for _, b := range fc.fn.Blocks {
		for _, in := range b.Instrs {
			p := in.Pos()
			if d, ok := in.(*ssa.DebugRef); ok {
				p = d.Expr.Pos()
			}
			if !p.IsValid() {
				continue
			}
			ln := fc.e.fset.Position(p).Line
			if !seen[ln] && strings.Contains(fc.e.srcLine(p), text) {
				seen[ln] = true
				out = append(out, ln)
			}
		}
	}
	sort.Ints(out)
	return out
}

// arith applies the machine semantics of +, -, * on type t to the mathematical result m.
//   opt nowrap:   unsigned (and narrow signed) results must not wrap - an obligation per operation, so a
//                 silently wrong value is reported instead of being modelled;
//   opt wrap-int: signed 64-bit results wrap around (two's complement) instead of being treated as
//                 mathematical integers (the default, listed as an assumption).
func (fc *FnCtx) arith(t types.Type, m string, x *ssa.BinOp) string {
	bits, signed, ok := intBits(t)
	if !ok {
		return m
	}
	if fc.con != nil && fc.con.Opts["nowrap"] != "" {
		if !(signed && bits == 64) {
			fc.oblige("nowrap", x.Name(), fmt.Sprintf("(= %s %s)", wrap(t, m), m), x.Pos(), nil)
		}
	}
	if signed && bits == 64 && fc.con != nil && fc.con.Opts["wrap-int"] != "" {
		h := pow2s(63)
		return fmt.Sprintf("(- (mod (+ %s %s) %s) %s)", m, h, pow2s(64), h)
	}
	return wrap(t, m)
}

// callSiteClauses: `callsite "F" expr` obligations, checked in the state just before each call to F.
func (fc *FnCtx) callSiteClauses(c *ssa.Call) { fc.callSiteClausesCommon(&c.Call, c.Pos()) }

// (a `go f(args)` statement is a call site of f as far as call-site clauses go: which function is started, and on
// what arguments, is decided where the statement stands)
func (fc *FnCtx) callSiteClausesCommon(cc *ssa.CallCommon, pos token.Pos) {
	if fc.con == nil || len(fc.con.CallSites) == 0 {
		return
	}
	names := callNameCommon(cc)
	for i := range fc.con.CallSites {
		cs := &fc.con.CallSites[i]
		match := false
		for _, n := range names {
			if n == cs.Anchor {
				match = true
			}
		}
		if !match {
			continue
		}
		if fc.callSiteSeen == nil {
			fc.callSiteSeen = map[string]bool{}
		}
		fc.callSiteSeen[cs.Anchor] = true
		base := fc.pointEnv(fc.curBlock)
		args := cc.Args
		env := *base
		inner := base.lookup
		env.lookup = func(name string) (Val, bool) {
			// a pointer, map, channel, function or interface parameter named in a call-site clause is the value the
			// caller passed: a body that reassigns the parameter before the call (`m = m.Copy()`) does not thereby
			// satisfy `arg0 == m`.  (Slices, strings and numbers keep their current value: re-slicing a buffer and
			// advancing an offset are what the clauses about them follow.)
			if fc.fn != nil {
				for _, p := range fc.fn.Params {
					if p.Name() != name {
						continue
					}
					spilled := false // a parameter captured by a closure lives in a cell; the code reads the cell
					if p.Referrers() != nil {
						for _, r := range *p.Referrers() {
							if st, ok := r.(*ssa.Store); ok && st.Val == p {
								spilled = true
							}
						}
					}
					if spilled {
						break
					}
					switch p.Type().Underlying().(type) {
					case *types.Pointer, *types.Map, *types.Chan, *types.Signature, *types.Interface:
						return fc.val(p), true
					}
				}
			}
			if name == "recv" && cc.IsInvoke() {
				return fc.val(cc.Value), true // the interface value a method is invoked on
			}
			if strings.HasPrefix(name, "arg") {
				var k int
				if _, err := fmt.Sscanf(name, "arg%d", &k); err == nil && k >= 0 && k < len(args) {
					return fc.val(args[k]), true
				}
			}
			return inner(name)
		}
		f := fc.evalBool(cs.C.E, &env)
		fc.oblige("callsite", cs.C.Label, f, pos, &cs.C)
	}
}

// tryEvalStored evaluates a stored-at expression; ok is false when the expression does not fit the shape of
// this store's value (e.g. selects a field of a scalar).
func (fc *FnCtx) tryEvalStored(e Expr, env *Env) (v Val, ok bool) {
	defer func() {
		if r := recover(); r != nil {
			if ve, isVC := r.(vcError); isVC && (strings.Contains(ve.msg, "field selection") || strings.Contains(ve.msg, "no field") || strings.Contains(ve.msg, "field ")) {
				ok = false
				return
			}
			panic(r)
		}
	}()
	return fc.evalExpr(e, env), true
}

// bitSupport: an over-approximation of the bits an unsigned value can have set, read off its definition
// (constants, masks with constants, shifts by constants, widening conversions, or); nil when nothing is known.
func bitSupport(v ssa.Value, depth int) *big.Int {
	bits, signed, ok := intBits(v.Type())
	if !ok || depth > 8 {
		return nil
	}
	full := new(big.Int).Sub(new(big.Int).Lsh(big.NewInt(1), uint(bits)), big.NewInt(1))
	constOf := func(u ssa.Value) *big.Int {
		c, isC := u.(*ssa.Const)
		if !isC || c.Value == nil || c.Value.Kind() != constant.Int {
			return nil
		}
		n, okn := new(big.Int).SetString(c.Value.ExactString(), 10)
		if !okn || n.Sign() < 0 {
			return nil
		}
		return n
	}
	if n := constOf(v); n != nil {
		return n
	}
	if signed {
		return nil
	}
	switch x := v.(type) {
	case *ssa.Convert:
		if sb, ssgn, sok := intBits(x.X.Type()); sok && !ssgn {
			in := bitSupport(x.X, depth+1)
			if in == nil {
				in = new(big.Int).Sub(new(big.Int).Lsh(big.NewInt(1), uint(sb)), big.NewInt(1))
			}
			return in.And(in, full)
		}
	case *ssa.BinOp:
		switch x.Op {
		case token.AND:
			sa, sb := bitSupport(x.X, depth+1), bitSupport(x.Y, depth+1)
			switch {
			case sa != nil && sb != nil:
				return new(big.Int).And(sa, sb)
			case sa != nil:
				return sa
			case sb != nil:
				return sb
			}
		case token.AND_NOT:
			sa := bitSupport(x.X, depth+1)
			if sa == nil {
				sa = new(big.Int).Set(full)
			}
			if n := constOf(x.Y); n != nil {
				return new(big.Int).AndNot(sa, n)
			}
			return sa
		case token.OR, token.XOR:
			sa, sb := bitSupport(x.X, depth+1), bitSupport(x.Y, depth+1)
			if sa != nil && sb != nil {
				return new(big.Int).Or(sa, sb)
			}
		case token.SHL:
			if k := constOf(x.Y); k != nil && k.IsInt64() && k.Int64() < 64 {
				sa := bitSupport(x.X, depth+1)
				if sa == nil {
					sa = new(big.Int).Set(full)
				}
				r := new(big.Int).Lsh(sa, uint(k.Int64()))
				return r.And(r, full)
			}
		case token.SHR:
			if k := constOf(x.Y); k != nil && k.IsInt64() && k.Int64() < 64 {
				sa := bitSupport(x.X, depth+1)
				if sa == nil {
					sa = new(big.Int).Set(full)
				}
				return new(big.Int).Rsh(sa, uint(k.Int64()))
			}
		}
	}
	return new(big.Int).Set(full)
}
