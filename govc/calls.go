package main

import (
	"fmt"
	"go/token"
	"go/types"
	"strings"

	"golang.org/x/tools/go/ssa"
)

func (e *Engine) ifaceContract(c *ssa.CallCommon) *Contract {
	named, _ := c.Value.Type().(*types.Named)
	if named == nil {
		if types.TypeString(c.Value.Type(), nil) == "error" {
			return e.cs.Funcs["error."+c.Method.Name()]
		}
		return nil
	}
	name := named.Obj().Name() + "." + c.Method.Name()
	if named.Obj().Pkg() != nil && named.Obj().Pkg().Path() != dnsPath {
		name = named.Obj().Pkg().Name() + "." + name
	}
	con := e.cs.Funcs[name]
	if con != nil && con.Kind == "iface" {
		return con
	}
	return nil
}

func (fc *FnCtx) doCall(res ssa.Value, c *ssa.CallCommon, in ssa.Instruction) {
	pos := in.Pos()
	fc.keepSliceOffsets, fc.keepStrOffsets = false, false
	prevCall := fc.curCall
	fc.curCall = c
	defer func() { fc.curCall = prevCall }()
	setRes := func(v Val) {
		if res != nil {
			fc.setVal(res, v)
		}
	}
	resType := c.Signature().Results()
	var rt types.Type = resType
	if resType.Len() == 1 {
		rt = resType.At(0).Type()
	}
	freshRes := func() Val {
		if res == nil {
			return Val{}
		}
		if resType.Len() == 0 {
			return mkVal(res.Type(), nil)
		}
		// (the result of a call is about to be described by the callee's postconditions - `sliceoff(ret0) ==
		// sliceoff(ip) + 12` - so its offsets must not be normalised to a literal 0: that made the IPv4-mapped case of
		// net.IP.To4 infeasible and a wrong SVCBIPv4Hint.pack verify)
		rv := fc.mergeVal(res.Name(), res.Type())
		if !fc.keepSliceOffsets {
			// (a contract that says nothing about where its slice results lie leaves them as unconstrained as before:
			// the representation at offset 0 is then without loss of generality, and much cheaper for the solvers)
			normaliseOffsets(res.Type(), rv.C)
		}
		if !fc.keepStrOffsets {
			// strings are immutable values: placing an unknown string at offset 0 of its array loses nothing, unless the
			// callee's contract speaks about where the result lies (issub/start)
			normaliseStrOffsets(res.Type(), rv.C)
		}
		fc.noAliasLocal(rv)
		fc.recordExisting(rv)
		return rv
	}
	_ = rt
	if c.IsInvoke() {
		recv := fc.val(c.Value)
		fc.oblige("nil", "invoke."+c.Method.Name(), fmt.Sprintf("(not (= %s 0))", recv.C[0]), pos, nil)
		// RR.Header(): pointer to the embedded header of the dynamic record
		if c.Method.Name() == "Header" && isNamed(c.Value.Type(), "RR") {
			// every implementation returns the address of its first field (checked by checkHeaderIdentity)
			fc.e.checkHeaderIdentity()
			fc.assumeHere(fmt.Sprintf("(< 0 %s)", recv.C[1]))
			setRes(mkVal(res.Type(), []string{recv.C[1]}))
			return
		}
		if con := fc.e.ifaceContract(c); con != nil {
			var names []string
			var args []Val
			names = append(names, "recv")
			args = append(args, recv)
			sig := c.Signature()
			for i, a := range c.Args {
				n := sig.Params().At(i).Name()
				if n == "" || n == "_" {
					n = fmt.Sprintf("arg%d", i)
				}
				names = append(names, n)
				args = append(args, fc.val(a))
			}
			if named, ok := c.Value.Type().(*types.Named); ok && named.Obj().Pkg() != nil && named.Obj().Pkg().Path() != dnsPath {
				// an interface of another package: its implementations are outside the module, the contract is trusted
				fc.noteExtern("interface " + con.Name)
			} else if fc.e.implementations(c) == nil {
				fc.noteExtern("interface " + con.Name + " (implemented by user code)")
			}
			setRes(fc.applyContract(con, names, args, sig, freshRes, pos, fc.callMods(c)))
			return
		}
		if isErrorMethod(c) {
			setRes(freshRes())
			return
		}
		mods := fc.callMods(c)
		fc.havocCall(&fc.cur, mods)
		fc.noteUncontracted("interface method " + typeName(c.Value.Type()) + "." + c.Method.Name())
		setRes(freshRes())
		return
	}
	switch f := c.Value.(type) {
	case *ssa.Builtin:
		fc.doBuiltin(res, f, c, in)
		return
	case *ssa.Function:
		fc.staticCall(res, f, c, in, freshRes)
		return
	case *ssa.MakeClosure:
		fn := f.Fn.(*ssa.Function)
		fc.havocCall(&fc.cur, fc.e.modset(fn))
		fc.noteUncontracted("closure " + fnName(fn))
		setRes(freshRes())
		return
	}
	// a record constructor read from the TypeToRR table: it only allocates, and returns a record of the dynamic type
	// the table gives the key (decided by the structural obligation UnpackRRWithHeader#table.constructors, which
	// belongs to every check that contains a function making such a call)
	if key, ok := tableLookupKey(c.Value); ok && res != nil {
		fc.e.usesCtorTable = true
		fc.e.assume("%s: no private type is registered (PrivateHandle) under the code of a standard type, so a constructor read from TypeToRR is the one the package initialiser stored", fc.name)
		rv := freshRes()
		if rv.K == KIface && len(rv.C) >= 2 {
			fc.assumeFreshRefs(rv)
			fc.assumeHere(fmt.Sprintf("(not (= %s 0))", rv.C[1]))
			fc.assumeHere(fc.e.typeOfCode(rv.C[0], fc.val(key).S()))
		}
		setRes(rv)
		return
	}
	// dynamic call through a function value: user code
	if fc.con != nil && fc.con.Opts["dyncalls-pure"] != "" {
		fc.e.assume("%s: calls through function values (the record constructors of the TypeToRR table, the Id generator) only allocate", fc.name)
		rv := freshRes()
		if len(rv.C) > 0 {
			fc.assumeFreshRefs(rv)
		}
		setRes(rv)
		return
	}
	fc.havocCall(&fc.cur, map[string]bool{"*": true})
	fc.noteUncontracted("dynamic call at " + fc.e.fset.Position(pos).String())
	setRes(freshRes())
}

func isNamed(t types.Type, name string) bool {
	n, ok := t.(*types.Named)
	return ok && n.Obj().Name() == name && n.Obj().Pkg() != nil && n.Obj().Pkg().Path() == dnsPath
}

func (fc *FnCtx) noteUncontracted(what string) {
	if fc.uncontracted == nil {
		fc.uncontracted = map[string]bool{}
	}
	fc.uncontracted[what] = true
}

func (fc *FnCtx) staticCall(res ssa.Value, f *ssa.Function, c *ssa.CallCommon, in ssa.Instruction, freshRes func() Val) {
	name := fnName(f)
	con := fc.e.contractFor(f)
	pos := in.Pos()
	setRes := func(v Val) {
		if res != nil {
			fc.setVal(res, v)
		}
	}
	if con == nil && f.Name() == "Header" && f.Signature.Recv() != nil && res != nil && typeName(derefType(res.Type())) == "RR_Header" && len(c.Args) == 1 {
		// (*T).Header() of a record type: the address of its first field, i.e. of the record itself
		// (every implementation is checked by checkHeaderIdentity)
		fc.e.checkHeaderIdentity()
		recv := fc.val(c.Args[0])
		fc.nilCheck(recv.S(), pos, c.Args[0])
		setRes(mkVal(res.Type(), []string{recv.S()}))
		return
	}
	if con == nil {
		if m := fc.builtinModel(name, res, c, in); m {
			return
		}
		mods := fc.callMods(c)
		fc.havocCall(&fc.cur, mods)
		if strings.HasPrefix(name, "(") || !strings.Contains(name, ".") || strings.HasPrefix(name, "dnsutil.") {
			fc.noteUncontracted(name)
		} else {
			fc.noteExtern(name)
		}
		setRes(freshRes())
		return
	}
	con.Used = true
	fc.keepStrOffsets = false
	fc.keepSliceOffsets = false
	for _, cl := range con.Ensures {
		if strings.Contains(cl.Src, "sliceoff(") && strings.TrimSpace(cl.Src) != "sliceoff(ret0) == 0" {
			fc.keepSliceOffsets = true // (a clause that says the result starts its own array agrees with the normal form)
		}
		if strings.Contains(cl.Src, "issub(") || strings.Contains(cl.Src, "start(") {
			fc.keepStrOffsets = true
		}
	}
	if con.Kind == "func" {
		if fc.calleeContracts == nil {
			fc.calleeContracts = map[string]bool{}
		}
		fc.calleeContracts[name] = true
	}
	var names []string
	var args []Val
	for i, a := range c.Args {
		n := fmt.Sprintf("arg%d", i)
		if i < len(f.Params) {
			n = f.Params[i].Name()
		}
		names = append(names, n)
		args = append(args, fc.val(a))
	}
	if con.Kind == "extern" {
		fc.noteExtern(name + " (contract)")
	}
	if f.Signature.Recv() != nil && len(args) > 0 {
		names = append(names, "recv")
		args = append(args, args[0])
	}
	setRes(fc.applyContract(con, names, args, f.Signature, freshRes, pos, fc.callMods(c)))
	if con.NoReturn {
		fc.curReach = "false"
	}
}

func (fc *FnCtx) noteExtern(name string) {
	if fc.externs == nil {
		fc.externs = map[string]bool{}
	}
	fc.externs[name] = true
}

// applyContract: assert requires, havoc modifies, bind fresh results, assume ensures.
func (fc *FnCtx) applyContract(con *Contract, names []string, args []Val, sig *types.Signature, freshRes func() Val, pos token.Pos, mods map[string]bool) Val {
	// the proof of this function leans on the callee's contract: the callee's own obligations belong to every
	// property this function is checked for (dependency closure in cmdCheck)
	if con.Kind == "func" && fc.e.funcs[con.Name] != nil {
		if fc.usedCons == nil {
			fc.usedCons = map[string]bool{}
		}
		fc.usedCons[con.Name] = true
	}
	pre := fc.cur.clone()
	argLookup := func(name string) (Val, bool) {
		for i, n := range names {
			if n == name || name == fmt.Sprintf("arg%d", i) {
				return args[i], true
			}
		}
		return Val{}, false
	}
	envPre := &Env{fc: fc, heap: &pre, old: &pre, lookup: argLookup, oldLookup: argLookup}
	for i := range con.Requires {
		cl := &con.Requires[i]
		f := fc.evalBool(cl.E, envPre)
		fc.oblige("pre", con.Name+"."+cl.Label, f, pos, cl)
	}
	fc.havocCall(&fc.cur, mods)
	// `modifies H@p` of a module leaf function whose stores into H all go through p (objectConfined): every other
	// object's cell of H keeps its value
	if con.Kind == "func" {
		callee := fc.e.funcs[con.Name]
		for _, m := range con.Modifies {
			i := strings.Index(m, "@")
			if i < 0 || !fc.e.objectConfined(callee, m[:i], m[i+1:]) {
				continue
			}
			pvl, ok := argLookup(m[i+1:])
			if !ok || pvl.K != KPtr {
				continue
			}
			h := m[:i]
			sort, known := fc.heapSort[h]
			if !known || !strings.HasPrefix(sort, "(Array Int ") {
				continue
			}
			oldT := fc.getHeapTerm(&pre, h, sort)
			newT := fc.getHeapTerm(&fc.cur, h, sort)
			if oldT == newT {
				continue
			}
			fc.heapSet(&fc.cur, h, sort, fmt.Sprintf("(store %s %s (select %s %s))", oldT, pvl.C[0], newT, pvl.C[0]))
		}
	}
	rv := freshRes()
	if con.Fresh && len(rv.C) > 0 {
		fc.assumeFreshRefs(rv)
	}
	if con.Deterministic && len(rv.C) > 0 {
		fc.assumeDeterministic(con.Name, args, rv, &pre)
	}
	results := sig.Results()
	envPost := &Env{fc: fc, heap: &fc.cur, old: &pre, oldLookup: argLookup,
		lookup: func(name string) (Val, bool) {
			for i := 0; i < results.Len(); i++ {
				rn := results.At(i).Name()
				if (rn != "" && rn != "_" && rn == name) || name == fmt.Sprintf("ret%d", i) || (name == "result" && results.Len() == 1) {
					if results.Len() == 1 {
						return rv, true
					}
					lo, hi, ft := fieldRange(results, i)
					return mkVal(ft, rv.C[lo:hi]), true
				}
			}
			return argLookup(name)
		}}
	for i := range con.Ensures {
		f := fc.evalBool(con.Ensures[i].E, envPost)
		fc.assumeHere(f)
	}
	return rv
}

func (fc *FnCtx) assumeFreshRefs(v Val) {
	fc.declare("allocBase", SInt)
	switch v.K {
	case KSlice, KPtr:
		fc.assumeHere(fmt.Sprintf("(or (= %s 0) (>= %s allocBase))", v.C[0], v.C[0]))
	case KIface:
		fc.assumeHere(fmt.Sprintf("(or (= %s 0) (>= %s allocBase))", v.C[1], v.C[1]))
	case KTuple:
		tu := v.T.Underlying().(*types.Tuple)
		for i := 0; i < tu.Len(); i++ {
			lo, hi, ft := fieldRange(v.T, i)
			fc.assumeFreshRefs(mkVal(ft, v.C[lo:hi]))
		}
	}
}

// ---------------------------------------------------------------------------
// builtins

func (fc *FnCtx) doBuiltin(res ssa.Value, b *ssa.Builtin, c *ssa.CallCommon, in ssa.Instruction) {
	pos := in.Pos()
	setRes := func(v Val) {
		if res != nil {
			fc.setVal(res, v)
		}
	}
	switch b.Name() {
	case "len":
		v := fc.val(c.Args[0])
		switch v.K {
		case KStr, KSlice:
			setRes(mkVal(res.Type(), []string{v.C[2]}))
		default:
			if _, isMap := c.Args[0].Type().Underlying().(*types.Map); isMap {
				setRes(mkVal(res.Type(), []string{fc.mapLen(&fc.cur, c.Args[0].Type(), v.S())}))
				break
			}
			r := fc.freshVal(res.Name(), res.Type())
			fc.assert(fmt.Sprintf("(and (<= 0 %s) (<= %s %s))", r.S(), r.S(), maxLen))
			if at, ok := derefType(c.Args[0].Type()).Underlying().(*types.Array); ok {
				fc.assert(fmt.Sprintf("(= %s %d)", r.S(), at.Len()))
			}
			setRes(r)
		}
	case "cap":
		v := fc.val(c.Args[0])
		if v.K == KSlice {
			setRes(mkVal(res.Type(), []string{v.C[3]}))
		} else {
			r := fc.freshVal(res.Name(), res.Type())
			fc.assert(fmt.Sprintf("(<= 0 %s)", r.S()))
			setRes(r)
		}
	case "append":
		fc.doAppend(res, c, pos)
	case "copy":
		fc.doCopy(res, c, pos)
	case "min", "max":
		op := "<="
		if b.Name() == "max" {
			op = ">="
		}
		acc := fc.val(c.Args[0]).S()
		for _, a := range c.Args[1:] {
			x := fc.val(a).S()
			acc = ite(fmt.Sprintf("(%s %s %s)", op, acc, x), acc, x)
		}
		setRes(mkVal(res.Type(), []string{acc}))
	case "delete":
		fc.mapDelete(c)
	case "clear":
		switch u := c.Args[0].Type().Underlying().(type) {
		case *types.Map:
			fc.mapClear(c)
		case *types.Slice:
			hs := map[string]bool{}
			addTypeHeaps("A."+typeName(u.Elem()), u.Elem(), hs)
			fc.havocSet(&fc.cur, hs) // the elements become zero; not modelled more precisely
		}
	case "print", "println", "close":
	case "panic":
		if fc.con == nil || !fc.con.MayPanic {
			fc.oblige("unreach", "panic", "false", pos, nil)
		}
	case "recover":
		if res != nil {
			setRes(fc.freshVal(res.Name(), res.Type()))
		}
	default:
		fc.unsup("builtin %s", b.Name())
		if res != nil {
			setRes(fc.freshVal(res.Name(), res.Type()))
		}
	}
}

// varargsElems: if v is `slice (new [k]T)[:]` built for a variadic call, return the k stored element values.
func (fc *FnCtx) varargsElems(v ssa.Value) ([]Val, bool) {
	sl, ok := v.(*ssa.Slice)
	if !ok || sl.Low != nil || sl.High != nil {
		return nil, false
	}
	al, ok := sl.X.(*ssa.Alloc)
	if !ok || al.Comment != "varargs" {
		return nil, false
	}
	at := derefType(al.Type()).Underlying().(*types.Array)
	elems := make([]Val, at.Len())
	found := 0
	for _, r := range *al.Referrers() {
		ia, ok := r.(*ssa.IndexAddr)
		if !ok {
			continue
		}
		idx, ok := ia.Index.(*ssa.Const)
		if !ok {
			return nil, false
		}
		for _, r2 := range *ia.Referrers() {
			if st, ok := r2.(*ssa.Store); ok && st.Addr == ia {
				elems[idx.Int64()] = fc.val(st.Val)
				found++
			}
		}
	}
	if found != int(at.Len()) {
		return nil, false
	}
	return elems, true
}

func (fc *FnCtx) doAppend(res ssa.Value, c *ssa.CallCommon, pos token.Pos) {
	s := fc.val(c.Args[0])
	st := c.Args[0].Type().Underlying().(*types.Slice)
	et := st.Elem()
	if len(c.Args) < 2 {
		fc.setVal(res, s)
		return
	}
	var n string
	var elems []Val
	var tailSeq [3]string // arr, off, len of appended sequence when not element-wise
	var tailVal Val
	haveElems := false
	if es, ok := fc.varargsElems(c.Args[1]); ok {
		elems, haveElems = es, true
		n = fmt.Sprint(len(es))
	} else {
		tv := fc.val(c.Args[1])
		tailVal = tv
		n = tv.C[2]
		if kindOf(et) == KInt {
			a, o, l := fc.seqOf(tv, &fc.cur)
			tailSeq = [3]string{a, o, l}
		}
	}
	newLen := fmt.Sprintf("(+ %s %s)", s.C[2], n)
	if f := fc.familyOf[res]; f != nil && (fc.familyOf[c.Args[0]] == f || isNilConst(c.Args[0])) {
		fc.familyAppend(res, f, s, et, n, elems, haveElems, tailSeq, pos)
		return
	}
	freshRef := fc.allocRef(res.Name()+".grow", res.Type()).S()
	inplace := fc.fresh(res.Name()+".inplace", SBool)
	fc.assert(fmt.Sprintf("(= %s (<= %s %s))", inplace, newLen, s.C[3]))
	// result components are fresh constants tied to the two cases by guarded equalities (the solver
	// case-splits on `inplace`; inside each case all terms are simple)
	rref := fc.fresh(res.Name()+".ref", SInt)
	roff := fc.fresh(res.Name()+".off", SInt)
	rlen := fc.fresh(res.Name()+".len", SInt)
	rcap := fc.fresh(res.Name()+".cap", SInt)
	fc.assert(fmt.Sprintf("(= %s %s)", rlen, newLen))
	fc.assert(fmt.Sprintf("(=> %s (and (= %s %s) (= %s %s) (= %s %s)))", inplace, rref, s.C[0], roff, s.C[1], rcap, s.C[3]))
	fc.assert(fmt.Sprintf("(=> (not %s) (and (= %s %s) (= %s 0) (<= %s %s) (<= %s %s)))", inplace, rref, freshRef, roff, rlen, rcap, rcap, maxLen))
	fc.assumeHere(fmt.Sprintf("(<= %s %s)", newLen, maxLen)) // global length assumption
	fc.allocCheck(n, pos)
	rv := mkVal(res.Type(), []string{rref, roff, rlen, rcap})
	// contents
	if _, isStruct := et.Underlying().(*types.Struct); isStruct {
		mods := map[string]bool{}
		addTypeHeaps("A."+typeName(et), et, mods)
		fc.havocSet(&fc.cur, mods)
		fc.setVal(res, rv)
		return
	}
	sorts := sortsOf(et)
	names := compNames(et)
	for ci := range sorts {
		hn := "A." + typeName(et) + "." + names[ci]
		hs := arrOf(arrOf(sorts[ci]))
		cur := fc.getHeapTerm(&fc.cur, hn, hs)
		oldArr := fmt.Sprintf("(select %s %s)", cur, s.C[0])
		// the contents of the result's backing array, as one fresh array R:
		//   R[roff+k] = old[soff+k] for k < len(s);  R[roff+len(s)+j] = appended element j;
		//   in place: every other cell of R equals the old backing array
		R := fc.fresh(res.Name()+".arr", arrOf(sorts[ci]))
		fc.nfresh++
		q := fmt.Sprintf("k!q%d", fc.nfresh)
		fc.assert(fmt.Sprintf("(forall ((%s Int)) (! (=> (and (<= 0 %s) (< %s %s)) (= (select %s (+ %s %s)) (select %s (+ %s %s)))) :pattern ((select %s (+ %s %s)))))",
			q, q, q, s.C[2], R, roff, q, oldArr, s.C[1], q, R, roff, q))
		if haveElems {
			for k, ev := range elems {
				fc.assert(fmt.Sprintf("(= (select %s (+ %s %s %d)) %s)", R, roff, s.C[2], k, ev.C[ci]))
			}
		} else if tailSeq[0] == "" && tailVal.K == KSlice {
			// the appended slice's elements, component by component, read from the heap before the append (Go's
			// append has memmove semantics for overlapping operands)
			fc.nfresh++
			q2 := fmt.Sprintf("k!q%d", fc.nfresh)
			tarr := fmt.Sprintf("(select %s %s)", cur, tailVal.C[0])
			fc.assert(fmt.Sprintf("(forall ((%s Int)) (! (=> (and (<= 0 %s) (< %s %s)) (= (select %s (+ %s %s %s)) (select %s (+ %s %s)))) :pattern ((select %s (+ %s %s %s)))))",
				q2, q2, q2, n, R, roff, s.C[2], q2, tarr, tailVal.C[1], q2, R, roff, s.C[2], q2))
		} else if tailSeq[0] != "" && ci == 0 {
			fc.nfresh++
			q2 := fmt.Sprintf("k!q%d", fc.nfresh)
			fc.assert(fmt.Sprintf("(forall ((%s Int)) (! (=> (and (<= 0 %s) (< %s %s)) (= (select %s (+ %s %s %s)) (select %s (+ %s %s)))) :pattern ((select %s (+ %s %s %s)))))",
				q2, q2, q2, n, R, roff, s.C[2], q2, tailSeq[0], tailSeq[1], q2, R, roff, s.C[2], q2))
		}
		// in place: cells outside [soff+len, soff+len+n) keep their old values
		fc.nfresh++
		q3 := fmt.Sprintf("k!q%d", fc.nfresh)
		fc.assert(fmt.Sprintf("(=> %s (forall ((%s Int)) (! (=> (or (< %s (+ %s %s)) (>= %s (+ %s %s %s))) (= (select %s %s) (select %s %s))) :pattern ((select %s %s)))))",
			inplace, q3, q3, s.C[1], s.C[2], q3, s.C[1], s.C[2], n, R, q3, oldArr, q3, R, q3))
		fc.heapSet(&fc.cur, hn, hs, fmt.Sprintf("(store %s %s %s)", cur, rref, R))
	}
	fc.setVal(res, rv)
}

func (fc *FnCtx) doCopy(res ssa.Value, c *ssa.CallCommon, pos token.Pos) {
	d := fc.val(c.Args[0])
	sv := fc.val(c.Args[1])
	n := ite(fmt.Sprintf("(<= %s %s)", d.C[2], sv.C[2]), d.C[2], sv.C[2])
	nn := fc.fresh("copy.n", SInt)
	fc.assert(fmt.Sprintf("(= %s %s)", nn, n))
	if res != nil {
		fc.setVal(res, mkVal(res.Type(), []string{nn}))
	}
	et := c.Args[0].Type().Underlying().(*types.Slice).Elem()
	if kindOf(et) != KInt {
		mods := map[string]bool{}
		addTypeHeaps("A."+typeName(et), et, mods)
		fc.havocSet(&fc.cur, mods)
		return
	}
	sa, so, _ := fc.seqOf(sv, &fc.cur)
	hn := "A." + typeName(et) + ".v"
	hs := arrOf(arrOf(SInt))
	cur := fc.getHeapTerm(&fc.cur, hn, hs)
	oldArr := fmt.Sprintf("(select %s %s)", cur, d.C[0])
	na := fc.fresh("copy.dst", SArr)
	fc.nfresh++
	q := fmt.Sprintf("k!q%d", fc.nfresh)
	fc.assert(fmt.Sprintf("(forall ((%s Int)) (! (= (select %s %s) (ite (and (<= %s %s) (< %s (+ %s %s))) (select %s (+ %s (- %s %s))) (select %s %s))) :pattern ((select %s %s))))",
		q, na, q, d.C[1], q, q, d.C[1], nn, sa, so, q, d.C[1], oldArr, q, na, q))
	fc.heapSet(&fc.cur, hn, hs, fmt.Sprintf("(store %s %s %s)", cur, d.C[0], na))
}

// ---------------------------------------------------------------------------
// map value invariants (type-level): `opt mapinv` is not per function; see tables in contracts: "mapinv <maptype> <expr over v>"

func (fc *FnCtx) mapInvCheck(x *ssa.MapUpdate) {
	mi := fc.e.mapInvFor(x.Map.Type())
	if mi == nil {
		return
	}
	v := fc.val(x.Value)
	env := &Env{fc: fc, heap: &fc.cur, old: &fc.entry, bound: map[string]Val{"v": v}, lookup: func(string) (Val, bool) { return Val{}, false }}
	f := fc.evalBool(mi.E, env)
	fc.oblige("mapinv", typeName(x.Map.Type()), f, x.Pos(), mi)
}

func (fc *FnCtx) mapInvAssume(x *ssa.Lookup) {
	mi := fc.e.mapInvFor(x.X.Type())
	if mi == nil {
		return
	}
	v := fc.vals[x]
	val := v
	if x.CommaOk {
		lo, hi, ft := fieldRange(x.Type(), 0)
		val = mkVal(ft, v.C[lo:hi])
		okc := v.C[hi]
		_ = lo
		env := &Env{fc: fc, heap: &fc.cur, old: &fc.entry, bound: map[string]Val{"v": val}, lookup: func(string) (Val, bool) { return Val{}, false }}
		fc.assert(implies(okc, fc.evalBool(mi.E, env)))
		return
	}
	// without comma-ok a miss yields the zero value, for which the invariant need not hold
}

func (e *Engine) mapInvFor(t types.Type) *Clause {
	con := e.cs.Funcs["mapinv."+typeName(t)]
	if con == nil || len(con.Ensures) == 0 {
		return nil
	}
	return &con.Ensures[0]
}

// familyAppend: append within a linear local append family (see family.go): the result lives on the
// family's private backing array at offset 0; contents are the old contents followed by the new elements.
func (fc *FnCtx) familyAppend(res ssa.Value, f *family, s Val, et types.Type, n string, elems []Val, haveElems bool, tailSeq [3]string, pos token.Pos) {
	c := fc.familyConst(f)
	newLen := fmt.Sprintf("(+ %s %s)", s.C[2], n)
	rcap := fc.fresh(res.Name()+".cap", SInt)
	fc.assert(fmt.Sprintf("(and (<= %s %s) (<= %s %s))", newLen, rcap, rcap, maxLen))
	fc.assumeHere(fmt.Sprintf("(<= %s %s)", newLen, maxLen))
	fc.allocCheck(n, pos)
	rv := mkVal(res.Type(), []string{c, "0", newLen, rcap})
	if _, isStruct := et.Underlying().(*types.Struct); isStruct {
		mods := map[string]bool{}
		addTypeHeaps("A."+typeName(et), et, mods)
		fc.havocSet(&fc.cur, mods)
		fc.setVal(res, rv)
		return
	}
	sorts := sortsOf(et)
	names := compNames(et)
	for ci := range sorts {
		hn := "A." + typeName(et) + "." + names[ci]
		hs := arrOf(arrOf(sorts[ci]))
		cur := fc.getHeapTerm(&fc.cur, hn, hs)
		// old contents: the member being extended always has offset 0 (or is nil with length 0)
		base := fmt.Sprintf("(select %s %s)", cur, s.C[0])
		var R string
		switch {
		case haveElems:
			R = base
			for k, ev := range elems {
				R = fmt.Sprintf("(store %s (+ %s %d) %s)", R, s.C[2], k, ev.C[ci])
			}
		case tailSeq[0] != "" && ci == 0:
			R = fc.fresh(res.Name()+".arr", arrOf(sorts[ci]))
			fc.nfresh++
			q := fmt.Sprintf("j!q%d", fc.nfresh)
			fc.assert(fmt.Sprintf("(forall ((%s Int)) (! (= (select %s %s) (ite (and (<= %s %s) (< %s (+ %s %s))) (select %s (+ %s (- %s %s))) (select %s %s))) :pattern ((select %s %s))))",
				q, R, q, s.C[2], q, q, s.C[2], n, tailSeq[0], tailSeq[1], q, s.C[2], base, q, R, q))
		default:
			R = fc.fresh(res.Name()+".arr", arrOf(sorts[ci]))
			fc.nfresh++
			q := fmt.Sprintf("j!q%d", fc.nfresh)
			fc.assert(fmt.Sprintf("(forall ((%s Int)) (! (=> (and (<= 0 %s) (< %s %s)) (= (select %s %s) (select %s %s))) :pattern ((select %s %s))))",
				q, q, q, s.C[2], R, q, base, q, R, q))
		}
		fc.heapSet(&fc.cur, hn, hs, fmt.Sprintf("(store %s %s %s)", cur, c, R))
	}
	fc.setVal(res, rv)
}

func normaliseStrOffsets(t types.Type, comps []string) {
	switch kindOf(t) {
	case KStr:
		comps[1] = "0"
	case KStruct:
		st := t.Underlying().(*types.Struct)
		for i := 0; i < st.NumFields(); i++ {
			lo, hi, ft := fieldRange(t, i)
			normaliseStrOffsets(ft, comps[lo:hi])
		}
	case KTuple:
		tu := t.Underlying().(*types.Tuple)
		for i := 0; i < tu.Len(); i++ {
			lo, hi, ft := fieldRange(t, i)
			normaliseStrOffsets(ft, comps[lo:hi])
		}
	}
}
