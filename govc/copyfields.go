package main

// Copy-field obligations (C16, C20): the hand-written copy() methods of the EDNS0 options and SVCB parameters
// return a new value of the receiver's own type in which every field is given a value that comes from the same
// field of the receiver (directly, through cloneSlice, or through a local that is built from that field).  A copy
// that leaves a field out (so it is zero in the copy) or fills it from another field fails
// `(*T).copy#fields`.  (Depth - that reference fields are cloned - is the business of the freshness contracts.)
// Decided on the syntax tree of the current source.

import (
	"fmt"
	"go/ast"
	"go/types"
	"strings"
)

func (e *Engine) copyFieldObligations() []*Obligation {
	var names []string
	names = append(names, e.implsOf("EDNS0.copy")...)
	names = append(names, e.implsOf("SVCBKeyValue.copy")...)
	names = append(names, "(*APLPrefix).copy")
	sortStrings(names)
	var out []*Obligation
	for _, n := range names {
		fn := e.funcs[n]
		fd, ok := e.funcBody(n)
		if fn == nil || !ok || recvName(fd) == "" {
			continue
		}
		recv := recvName(fd)
		// the receiver's struct type
		rt := fn.Signature.Recv().Type()
		if p, ok := rt.(*types.Pointer); ok {
			rt = p.Elem()
		}
		nt, ok := rt.(*types.Named)
		if !ok {
			continue
		}
		st, ok := nt.Underlying().(*types.Struct)
		if !ok {
			continue
		}
		var fields []string
		for i := 0; i < st.NumFields(); i++ {
			fields = append(fields, st.Field(i).Name())
		}
		// locals and the receiver fields that flow into them
		flow := map[string]map[string]bool{}
		note := func(v string, x ast.Node) {
			ast.Inspect(x, func(m ast.Node) bool {
				if se, ok := m.(*ast.SelectorExpr); ok {
					if id, ok := se.X.(*ast.Ident); ok && id.Name == recv {
						if flow[v] == nil {
							flow[v] = map[string]bool{}
						}
						flow[v][se.Sel.Name] = true
					}
				}
				if id, ok := m.(*ast.Ident); ok && flow[id.Name] != nil && id.Name != v {
					for f := range flow[id.Name] {
						if flow[v] == nil {
							flow[v] = map[string]bool{}
						}
						flow[v][f] = true
					}
				}
				return true
			})
		}
		for pass := 0; pass < 2; pass++ {
			ast.Inspect(fd.Body, func(m ast.Node) bool {
				switch s := m.(type) {
				case *ast.AssignStmt:
					for i, l := range s.Lhs {
						var lid *ast.Ident
						switch x := l.(type) {
						case *ast.Ident:
							lid = x
						case *ast.IndexExpr:
							lid, _ = x.X.(*ast.Ident)
						}
						if lid == nil {
							continue
						}
						if len(s.Rhs) == len(s.Lhs) {
							note(lid.Name, s.Rhs[i])
						} else if len(s.Rhs) == 1 {
							note(lid.Name, s.Rhs[0])
						}
					}
				case *ast.RangeStmt:
					for _, kv := range []ast.Expr{s.Key, s.Value} {
						if id, ok := kv.(*ast.Ident); ok {
							note(id.Name, s.X)
						}
					}
				}
				return true
			})
		}
		mentions := func(x ast.Expr) map[string]bool {
			got := map[string]bool{}
			ast.Inspect(x, func(m ast.Node) bool {
				if se, ok := m.(*ast.SelectorExpr); ok {
					if id, ok := se.X.(*ast.Ident); ok && id.Name == recv {
						got[se.Sel.Name] = true
					}
				}
				if id, ok := m.(*ast.Ident); ok {
					for f := range flow[id.Name] {
						got[f] = true
					}
				}
				return true
			})
			return got
		}
		var bad []string
		lits := 0
		ast.Inspect(fd.Body, func(m ast.Node) bool {
			rs, ok := m.(*ast.ReturnStmt)
			if !ok || len(rs.Results) != 1 {
				return true
			}
			x := rs.Results[0]
			if u, ok := x.(*ast.UnaryExpr); ok {
				x = u.X
			}
			cl, ok := x.(*ast.CompositeLit)
			if !ok {
				bad = append(bad, "a return value that is not a composite literal of the receiver's type: "+e.stmtText(rs))
				return true
			}
			if id, ok := cl.Type.(*ast.Ident); !ok || id.Name != nt.Obj().Name() {
				bad = append(bad, "the copy is not of type "+nt.Obj().Name())
				return true
			}
			lits++
			given := map[string]ast.Expr{}
			for i, el := range cl.Elts {
				if kv, ok := el.(*ast.KeyValueExpr); ok {
					if k, ok := kv.Key.(*ast.Ident); ok {
						given[k.Name] = kv.Value
					}
				} else if i < len(fields) {
					given[fields[i]] = el
				}
			}
			for _, f := range fields {
				v, has := given[f]
				if !has {
					bad = append(bad, "field "+f+" is not set in the copy")
					continue
				}
				if !mentions(v)[f] {
					bad = append(bad, fmt.Sprintf("field %s of the copy is `%s`, which does not come from the receiver's %s", f, e.stmtText(v), f))
				}
			}
			return true
		})
		if lits == 0 && len(bad) == 0 {
			bad = append(bad, "no returned literal found")
		}
		ob := &Obligation{Fn: n, Name: n + "#fields", Kind: "layout", Solver: "structural matcher (syntax tree of the current source)", Pos: fn.Pos()}
		ob.Src = fmt.Sprintf("the copy sets every field of %s (%s) from the same field of the receiver", nt.Obj().Name(), strings.Join(fields, ", "))
		ob.Clause = &Clause{Label: "fields", Src: ob.Src}
		if len(bad) == 0 {
			ob.Status = "proved"
		} else {
			ob.Status = "failed"
			ob.Output = strings.Join(bad, "; ")
			ob.Src += " -- " + ob.Output
		}
		out = append(out, ob)
	}
	return out
}
