package main

// Contracts are structured comments ("//@ ...") in comment-only Go files
// /repo/verif_contracts_*.go guarded by the build tag "verif".

import (
	"bufio"
	"fmt"
	"os"
	"path/filepath"
	"regexp"
	"sort"
	"strconv"
	"strings"
)

type Clause struct {
	Label string
	E     Expr
	Src   string
	Tags  []string
	File  string
	Line  int
}

type LoopSpec struct {
	Invs []Clause
	Decs []Clause
}

type AssertSpec struct {
	After    bool // evaluated after the anchored statement (at the last variable reference of its line)
	Optional bool
	Ghost  string
	Anchor string
	C      Clause
	Assume bool
	Apply  bool
}

type Contract struct {
	Name     string
	Kind     string // func | extern | iface
	Requires []Clause
	Ensures  []Clause
	Exits    []Clause
	Modifies []string
	HasMod   bool
	Loops    map[int]*LoopSpec
	Inline   bool
	MayPanic bool
	NoReturn bool
	Fresh    bool // extern: results are freshly allocated
	Tags     []string
	Asserts  []AssertSpec
	Uses     []string
	Deterministic bool
	Stored   []AssertSpec
	CallSites []AssertSpec
	Writes   []string
	Opts     map[string]string
	File     string
	Line     int
	Used     bool
}

type SpecParam struct{ Name, Type string }

type SpecFn struct {
	Name    string
	Params  []SpecParam
	Ret     string // int | bool
	Body    Expr
	Src     string
	Dec     Expr
	Uninter bool // declared without body
}

type Lemma struct {
	Name  string
	Params []SpecParam
	C     Clause
	Tags  []string
	Induc string // optional: induction variable
	General []string // parameters generalised in the induction hypothesis
}

type ContractSet struct {
	Funcs  map[string]*Contract
	Specs  map[string]*SpecFn
	SpecOrder []string
	Lemmas []*Lemma
	Schema map[string]*SchemaType
	WireFmts []*SchemaType
	TextOrder map[string][]string // record type -> fields in the order of its presentation format (when it differs from the wire order)
	NoText map[string]bool // record types without a presentation format of their own
	GhostField map[string]string // "<type>.<ghost>" -> heap component that defines it (ghostfield directive)
	Files  []string
}

var tagRe = regexp.MustCompile(`\s*\[((?:C\d+(?::\w+)?\s*)+)\]\s*$`)

func splitTags(s string) (string, []string) {
	m := tagRe.FindStringSubmatchIndex(s)
	if m == nil {
		return s, nil
	}
	tags := strings.Fields(s[m[2]:m[3]])
	return strings.TrimSpace(s[:m[0]]), tags
}

var inductRe = regexp.MustCompile(`\)\s+induct\s+(.+?)(?:\s+over((?:\s+\w+)+))?\s*:\s`)

var labelRe = regexp.MustCompile(`^([A-Za-z_][A-Za-z0-9_.\-]*):\s+`)

func loadContracts(dir string) (*ContractSet, error) {
	files, _ := filepath.Glob(filepath.Join(dir, "verif_contracts_*.go"))
	sub, _ := filepath.Glob(filepath.Join(dir, "*", "verif_contracts_*.go"))
	files = append(files, sub...)
	sort.Strings(files)
	cs := &ContractSet{Funcs: map[string]*Contract{}, Specs: map[string]*SpecFn{}, Files: files}
	for _, f := range files {
		if err := cs.parseFile(f); err != nil {
			return nil, err
		}
	}
	return cs, nil
}

func (cs *ContractSet) parseFile(path string) error {
	fh, err := os.Open(path)
	if err != nil {
		return err
	}
	defer fh.Close()
	sc := bufio.NewScanner(fh)
	sc.Buffer(make([]byte, 1<<20), 1<<20)
	var lines []string
	var lnos []int
	ln := 0
	for sc.Scan() {
		ln++
		t := strings.TrimSpace(sc.Text())
		if !strings.HasPrefix(t, "//@") {
			continue
		}
		body := strings.TrimSpace(t[3:])
		if body == "" {
			continue
		}
		// strip trailing "// comment"
		if i := strings.Index(body, " // "); i >= 0 {
			body = strings.TrimSpace(body[:i])
		}
		if strings.HasPrefix(body, "+") && len(lines) > 0 { // continuation
			lines[len(lines)-1] += " " + strings.TrimSpace(body[1:])
			continue
		}
		lines = append(lines, body)
		lnos = append(lnos, ln)
	}
	var cur *Contract
	for i, l := range lines {
		fail := func(e error) error { return fmt.Errorf("%s:%d: %v (%s)", path, lnos[i], e, l) }
		kw, rest := l, ""
		if j := strings.IndexAny(l, " \t"); j >= 0 {
			kw, rest = l[:j], strings.TrimSpace(l[j+1:])
		}
		switch kw {
		case "func", "extern", "iface":
			rest, tags := splitTags(rest)
			name := rest
			if strings.ContainsAny(name, " \t") {
				return fail(fmt.Errorf("malformed contract header (unparsed tag list?)"))
			}
			if ex, dup := cs.Funcs[name]; dup {
				// several blocks for one function (e.g. one per property file) are merged
				if ex.Kind != kw {
					return fail(fmt.Errorf("contract for %s declared both as %s and %s", name, ex.Kind, kw))
				}
				for _, t := range tags {
					if !hasTag(ex.Tags, t) {
						ex.Tags = append(ex.Tags, t)
					}
				}
				cur = ex
				continue
			}
			cur = &Contract{Name: name, Kind: kw, Loops: map[int]*LoopSpec{}, Tags: tags, File: path, Line: lnos[i], Opts: map[string]string{}}
			cs.Funcs[name] = cur
		case "wirefmt":
			// wirefmt <func> Field:codec ... [Cxx]: a hand-written serialiser func(w *T, msg []byte) (int, error)
			// must pack exactly these fields of w in this order, starting at offset 0
			body, tags := splitTags(rest)
			f := strings.Fields(body)
			if len(f) < 2 {
				return fail(fmt.Errorf("wirefmt <func> fields..."))
			}
			st, err := parseSchemaLine(f[0]+" 0 "+strings.Join(f[1:], " "), path, lnos[i])
			if err != nil {
				return fail(err)
			}
			st.Tags = tags
			cs.WireFmts = append(cs.WireFmts, st)
			cur = nil
		case "schema":
			st, err := parseSchemaLine(rest, path, lnos[i])
			if err != nil {
				return fail(err)
			}
			if cs.Schema == nil {
				cs.Schema = map[string]*SchemaType{}
			}
			cs.Schema[st.Name] = st
			cur = nil
		case "textorder":
			f := strings.Fields(rest)
			if len(f) < 2 {
				return fail(fmt.Errorf("textorder <Type> fields..."))
			}
			if cs.TextOrder == nil {
				cs.TextOrder = map[string][]string{}
			}
			cs.TextOrder[f[0]] = f[1:]
			cur = nil
		case "notext":
			if cs.NoText == nil {
				cs.NoText = map[string]bool{}
			}
			for _, t := range strings.Fields(rest) {
				cs.NoText[t] = true
			}
			cur = nil
		case "ghostfield":
			// ghostfield TYPE NAME COMPONENT: ghost(x, "NAME") of a TYPE is by definition the heap component
			// H.TYPE.COMPONENT of x (e.g. the length of strings.Builder's buf), so facts the engine derives about the
			// real field (a zero value has length 0) hold for the ghost without an assumption
			f := strings.Fields(rest)
			if len(f) != 3 {
				return fail(fmt.Errorf("ghostfield TYPE NAME COMPONENT"))
			}
			if cs.GhostField == nil {
				cs.GhostField = map[string]string{}
			}
			cs.GhostField[f[0]+"."+f[1]] = "H." + f[0] + "." + f[2]
			cur = nil
		case "spec":
			sp, err := parseSpec(rest)
			if err != nil {
				return fail(err)
			}
			if _, dup := cs.Specs[sp.Name]; dup {
				return fail(fmt.Errorf("duplicate spec %s", sp.Name))
			}
			cs.Specs[sp.Name] = sp
			cs.SpecOrder = append(cs.SpecOrder, sp.Name)
			cur = nil
		case "lemma":
			rest, tags := splitTags(rest)
			// lemma name(a int, s seq): expr
			induct := ""
			var general []string
			if m := inductRe.FindStringSubmatch(rest); m != nil {
				induct = m[1]
				general = strings.Fields(m[2])
				rest = strings.Replace(rest, m[0], "): ", 1)
			}
			j := strings.Index(rest, "):")
			k := strings.Index(rest, "(")
			if j < 0 || k < 0 || k > j {
				return fail(fmt.Errorf("lemma name(params): expr"))
			}
			name := strings.TrimSpace(rest[:k])
			var params []SpecParam
			for _, p := range strings.Split(rest[k+1:j], ",") {
				p = strings.TrimSpace(p)
				if p == "" {
					continue
				}
				f := strings.Fields(p)
				if len(f) != 2 {
					return fail(fmt.Errorf("lemma param %q", p))
				}
				params = append(params, SpecParam{f[0], f[1]})
			}
			src := strings.TrimSpace(rest[j+2:])
			e, err := parseExpr(src)
			if err != nil {
				return fail(err)
			}
			cs.Lemmas = append(cs.Lemmas, &Lemma{Name: name, Params: params, Induc: induct, General: general, C: Clause{Label: name, E: e, Src: src, Tags: tags, File: path, Line: lnos[i]}, Tags: tags})
			cur = nil
		default:
			if cur == nil {
				return fail(fmt.Errorf("clause outside a contract"))
			}
			if err := cur.addClause(kw, rest, path, lnos[i]); err != nil {
				return fail(err)
			}
		}
	}
	return nil
}

func mkClause(rest, path string, line int, allowLabel bool) (Clause, error) {
	rest, tags := splitTags(rest)
	label := ""
	if allowLabel {
		if m := labelRe.FindStringSubmatch(rest); m != nil && !strings.HasPrefix(rest[len(m[0]):], "=") {
			label = m[1]
			rest = rest[len(m[0]):]
		}
	}
	e, err := parseExpr(rest)
	if err != nil {
		return Clause{}, err
	}
	return Clause{Label: label, E: e, Src: rest, Tags: tags, File: path, Line: line}, nil
}

func (c *Contract) addClause(kw, rest, path string, line int) error {
	switch kw {
	case "requires":
		cl, err := mkClause(rest, path, line, true)
		if err != nil {
			return err
		}
		if cl.Label == "" {
			cl.Label = fmt.Sprintf("r%d", len(c.Requires)+1)
		}
		c.Requires = append(c.Requires, cl)
	case "ensures":
		if strings.Contains(rest, "callres(") || strings.Contains(rest, "callarg(") || strings.Contains(rest, "called(") {
			// postconditions are assumed by callers, where the callee's calls do not exist
			return fmt.Errorf("callres/callarg/called are local to the function body: use an exit clause, not ensures")
		}
		cl, err := mkClause(rest, path, line, true)
		if err != nil {
			return err
		}
		if cl.Label == "" {
			cl.Label = fmt.Sprintf("e%d", len(c.Ensures)+1)
		}
		c.Ensures = append(c.Ensures, cl)
	case "exit":
		cl, err := mkClause(rest, path, line, true)
		if err != nil {
			return err
		}
		if cl.Label == "" {
			cl.Label = fmt.Sprintf("x%d", len(c.Exits)+1)
		}
		c.Exits = append(c.Exits, cl)
	case "modifies":
		c.HasMod = true
		for _, m := range strings.Fields(strings.ReplaceAll(rest, ",", " ")) {
			if m != "nothing" {
				c.Modifies = append(c.Modifies, m)
			}
		}
	case "use":
		c.Uses = append(c.Uses, rest)
	case "writes":
		// writes p q: the call may write the backing arrays of the slice parameters p, q and nothing else
		c.HasMod = true
		c.Writes = append(c.Writes, strings.Fields(strings.ReplaceAll(rest, ",", " "))...)
	case "pure":
		c.HasMod = true
	case "deterministic":
		c.Deterministic = true
	case "inline":
		c.Inline = true
	case "may-panic":
		c.MayPanic = true
	case "noreturn":
		c.NoReturn = true
	case "fresh":
		c.Fresh = true
	case "opt":
		kv := strings.SplitN(rest, "=", 2)
		if len(kv) == 2 {
			c.Opts[strings.TrimSpace(kv[0])] = strings.TrimSpace(kv[1])
		} else {
			c.Opts[strings.TrimSpace(rest)] = "1"
		}
	case "loop":
		f := strings.SplitN(rest, " ", 3)
		if len(f) < 3 {
			return fmt.Errorf("loop <k> invariant|decreases <expr>")
		}
		k := -1 // "loop * invariant e": every loop of the function (and of every implementation, for iface contracts)
		if f[0] != "*" {
			var err error
			k, err = strconv.Atoi(f[0])
			if err != nil {
				return err
			}
		}
		ls := c.Loops[k]
		if ls == nil {
			ls = &LoopSpec{}
			c.Loops[k] = ls
		}
		cl, err := mkClause(f[2], path, line, true)
		if err != nil {
			return err
		}
		switch f[1] {
		case "invariant":
			if cl.Label == "" {
				cl.Label = fmt.Sprintf("i%d", len(ls.Invs)+1)
			}
			ls.Invs = append(ls.Invs, cl)
		case "decreases":
			ls.Decs = append(ls.Decs, cl)
		default:
			return fmt.Errorf("unknown loop clause %q", f[1])
		}
	case "ghost":
		// ghost NAME at "anchor" expr: NAME denotes the value of expr at the anchored point in later clauses
		f := strings.SplitN(rest, " ", 2)
		if len(f) < 2 || !strings.HasPrefix(strings.TrimSpace(f[1]), "at ") {
			return fmt.Errorf("ghost NAME at \"anchor\" expr")
		}
		r := strings.TrimSpace(strings.TrimSpace(f[1])[3:])
		if !strings.HasPrefix(r, "\"") {
			return fmt.Errorf("anchor string expected")
		}
		j := strings.Index(r[1:], "\"")
		if j < 0 {
			return fmt.Errorf("unterminated anchor")
		}
		cl, err := mkClause(strings.TrimSpace(r[j+2:]), path, line, true)
		if err != nil {
			return err
		}
		cl.Label = "ghost." + f[0]
		c.Asserts = append(c.Asserts, AssertSpec{Anchor: r[1 : 1+j], C: cl, Ghost: f[0]})
	case "stored":
		// stored at "anchor" expr: the value stored by the statement on the anchored source line equals expr
		if !strings.HasPrefix(rest, "at ") {
			return fmt.Errorf("stored at \"anchor\" expr")
		}
		r := strings.TrimSpace(rest[3:])
		if !strings.HasPrefix(r, "\"") {
			return fmt.Errorf("anchor string expected")
		}
		j := strings.Index(r[1:], "\"")
		if j < 0 {
			return fmt.Errorf("unterminated anchor")
		}
		anchor := r[1 : 1+j]
		cl, err := mkClause(strings.TrimSpace(r[j+2:]), path, line, true)
		if err != nil {
			return err
		}
		if cl.Label == "" {
			cl.Label = fmt.Sprintf("s%d", len(c.Stored)+1)
		}
		c.Stored = append(c.Stored, AssertSpec{Anchor: anchor, C: cl})
	case "apply":
		// apply at "anchor" lemma(args): instantiate a proven lemma at a program point
		if !strings.HasPrefix(rest, "at ") {
			return fmt.Errorf("apply at \"anchor\" lemma(args)")
		}
		r := strings.TrimSpace(rest[3:])
		if !strings.HasPrefix(r, "\"") {
			return fmt.Errorf("anchor string expected")
		}
		j := strings.Index(r[1:], "\"")
		if j < 0 {
			return fmt.Errorf("unterminated anchor")
		}
		anchor := r[1 : 1+j]
		call := strings.TrimSpace(r[j+2:])
		e, err := parseExpr(call)
		if err != nil {
			return err
		}
		ce, ok := e.(*ECall)
		if !ok {
			return fmt.Errorf("apply: lemma(args) expected")
		}
		c.Asserts = append(c.Asserts, AssertSpec{Anchor: anchor, C: Clause{Label: ce.Fn, E: e, Src: call, File: path, Line: line}, Apply: true})
	case "assert", "assume":
		// assert at "anchor" expr      - the anchor must occur in the function
		// assert at* "anchor" expr     - for every line that contains the anchor, if any (a discipline on
		//                                 statements of a certain shape, e.g. every direct Read of a connection)
		// assert after "anchor" expr   - evaluated after the anchored assignment: names denote the new values
		optional, after := false, false
		if strings.HasPrefix(rest, "at* ") {
			optional = true
			rest = "at " + rest[4:]
		}
		if strings.HasPrefix(rest, "after ") {
			after = true
			rest = "at " + rest[6:]
		}
		if !strings.HasPrefix(rest, "at ") {
			return fmt.Errorf("assert at \"anchor\" expr")
		}
		r := strings.TrimSpace(rest[3:])
		if !strings.HasPrefix(r, "\"") {
			return fmt.Errorf("anchor string expected")
		}
		j := strings.Index(r[1:], "\"")
		if j < 0 {
			return fmt.Errorf("unterminated anchor")
		}
		anchor := r[1 : 1+j]
		cl, err := mkClause(strings.TrimSpace(r[j+2:]), path, line, true)
		if err != nil {
			return err
		}
		if cl.Label == "" {
			cl.Label = fmt.Sprintf("a%d", len(c.Asserts)+1)
		}
		c.Asserts = append(c.Asserts, AssertSpec{Anchor: anchor, C: cl, Assume: kw == "assume", Optional: optional, After: after})
	case "callsite":
		// callsite "F" label: expr - at every call to F in this function expr holds; arg0, arg1, ... are
		// the call's arguments (the receiver first for methods, excluded for interface calls)
		r := strings.TrimSpace(rest)
		if !strings.HasPrefix(r, "\"") {
			return fmt.Errorf("callsite \"F\" expr")
		}
		j := strings.Index(r[1:], "\"")
		if j < 0 {
			return fmt.Errorf("unterminated function name")
		}
		cl, err := mkClause(strings.TrimSpace(r[j+2:]), path, line, true)
		if err != nil {
			return err
		}
		if cl.Label == "" {
			cl.Label = fmt.Sprintf("c%d", len(c.CallSites)+1)
		}
		c.CallSites = append(c.CallSites, AssertSpec{Anchor: r[1 : 1+j], C: cl})
	default:
		return fmt.Errorf("unknown clause keyword %q", kw)
	}
	return nil
}

// spec name(a int, s seq, b bool) int = expr   [decreases e]
func parseSpec(rest string) (*SpecFn, error) {
	i := strings.Index(rest, "(")
	if i < 0 {
		return nil, fmt.Errorf("spec: '(' expected")
	}
	name := strings.TrimSpace(rest[:i])
	j := strings.Index(rest, ")")
	if j < 0 {
		return nil, fmt.Errorf("spec: ')' expected")
	}
	sp := &SpecFn{Name: name}
	for _, p := range strings.Split(rest[i+1:j], ",") {
		p = strings.TrimSpace(p)
		if p == "" {
			continue
		}
		f := strings.Fields(p)
		if len(f) != 2 {
			return nil, fmt.Errorf("spec param %q", p)
		}
		sp.Params = append(sp.Params, SpecParam{f[0], f[1]})
	}
	// propagate "a, b int" style types backwards
	tail := strings.TrimSpace(rest[j+1:])
	k := strings.Index(tail, "=")
	if k < 0 {
		sp.Ret = strings.TrimSpace(tail)
		sp.Uninter = true
		return sp, nil
	}
	sp.Ret = strings.TrimSpace(tail[:k])
	body := strings.TrimSpace(tail[k+1:])
	if d := strings.LastIndex(body, " decreases "); d >= 0 {
		de, err := parseExpr(strings.TrimSpace(body[d+11:]))
		if err != nil {
			return nil, err
		}
		sp.Dec = de
		body = strings.TrimSpace(body[:d])
	}
	e, err := parseExpr(body)
	if err != nil {
		return nil, err
	}
	sp.Body = e
	sp.Src = body
	return sp, nil
}
