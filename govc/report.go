package main

import (
	"bufio"
	"encoding/json"
	"fmt"
	"os"
	"path/filepath"
	"regexp"
	"sort"
	"strconv"
	"strings"
	"time"

	"golang.org/x/tools/go/ssa"
)

type Finding struct {
	Kind       string // finding | fixed
	Property   string
	Obligation string
	Region     string
	Witness    string
	Text       string
	Seen       bool
}

var kvRe = regexp.MustCompile(`(\w+)=("([^"]*)"|\S+)`)

func loadFindings(path string) ([]*Finding, error) {
	fh, err := os.Open(path)
	if err != nil {
		if os.IsNotExist(err) {
			return nil, nil
		}
		return nil, err
	}
	defer fh.Close()
	var out []*Finding
	sc := bufio.NewScanner(fh)
	for sc.Scan() {
		l := strings.TrimSpace(sc.Text())
		if l == "" || strings.HasPrefix(l, "#") {
			continue
		}
		var f Finding
		switch {
		case strings.HasPrefix(l, "finding:"):
			f.Kind = "finding"
			l = strings.TrimSpace(l[len("finding:"):])
		case strings.HasPrefix(l, "fixed:"):
			f.Kind = "fixed"
			l = strings.TrimSpace(l[len("fixed:"):])
		default:
			continue
		}
		text := l
		if i := strings.Index(l, " -- "); i >= 0 {
			text = strings.TrimSpace(l[i+4:])
			l = l[:i]
		}
		for _, m := range kvRe.FindAllStringSubmatch(l, -1) {
			v := m[2]
			if m[3] != "" || strings.HasPrefix(v, "\"") {
				v = m[3]
			}
			switch m[1] {
			case "property":
				f.Property = v
			case "obligation":
				f.Obligation = v
			case "region":
				f.Region = v
			case "witness":
				f.Witness = v
			}
		}
		f.Text = text
		out = append(out, &f)
	}
	return out, nil
}

type propSet struct {
	fns     []string
	reasons map[string]string
}

// functionsFor returns the functions whose contracts carry the property tag (iface contracts expand to
// all implementations).
func (e *Engine) functionsFor(prop string) []string {
	seen := map[string]bool{}
	var out []string
	add := func(n string) {
		if !seen[n] {
			seen[n] = true
			out = append(out, n)
		}
	}
	var names []string
	for n := range e.cs.Funcs {
		names = append(names, n)
	}
	sort.Strings(names)
	for _, n := range names {
		c := e.cs.Funcs[n]
		if !hasTag(c.Tags, prop) && tagFilter(c.Tags, prop) == "" {
			continue
		}
		switch c.Kind {
		case "func":
			if fn := e.funcs[n]; fn != nil && !(fn.TypeParams().Len() > 0 && len(fn.TypeArgs()) == 0) {
				add(n)
				continue
			}
			// generic: all instantiations
			found := false
			for fname := range e.funcs {
				if strings.HasPrefix(fname, n+"[") {
					add(fname)
					found = true
				}
			}
			if !found {
				e.toolErrors = append(e.toolErrors, "contract for unknown function "+n)
			}
		case "iface":
			if strings.HasPrefix(n, "mapinv.") {
				continue
			}
			impls := e.implsOf(n)
			sort.Strings(impls)
			for _, m := range impls {
				if ex := e.cs.Funcs[m]; ex != nil && ex.Opts["exclude"] != "" {
					continue
				}
				add(m)
			}
		}
	}
	sort.Strings(out)
	return out
}

// tagFilter: a tag "Cxx:word" makes the function count for property Cxx with only those of its obligations
// whose name contains word (a property that leans on one clause of a function specified for another property).
func tagFilter(tags []string, prop string) string {
	if hasTag(tags, prop) {
		return ""
	}
	for _, x := range tags {
		if strings.HasPrefix(x, prop+":") {
			return x[len(prop)+1:]
		}
	}
	return ""
}

func hasTag(tags []string, t string) bool {
	for _, x := range tags {
		if x == t {
			return true
		}
	}
	return false
}

type evidence struct {
	PropertyID  string                 `json:"property_id"`
	Tier        string                 `json:"tier"`
	Seed        int                    `json:"seed"`
	Level       string                 `json:"level"`
	Coverage    map[string]interface{} `json:"coverage"`
	Assumptions []string               `json:"assumptions"`
	WallS       float64                `json:"wall_s"`
	Violations  int                    `json:"violations"`
}

func (e *Engine) cmdCheck(prop, tier, evid, known, replayDir string, replay bool, t0 time.Time) int {
	seed := 0
	if s := os.Getenv("VERIF_SEED"); s != "" {
		seed, _ = strconv.Atoi(s)
	}
	if prop == "" {
		fmt.Fprintln(os.Stderr, "govc check: -property required")
		return 3
	}
	findings, err := loadFindings(known)
	if err != nil {
		fmt.Fprintf(os.Stderr, "govc: %v\n", err)
		return 3
	}
	fns := e.functionsFor(prop)
	if len(fns) == 0 {
		fmt.Fprintf(os.Stderr, "govc: no function is under contract for %s\n", prop)
		return 3
	}
	var all []*Obligation
	var fcs []*FnCtx
	unsupported := map[string]bool{}
	uncontracted := map[string]bool{}
	externs := map[string]bool{}
	inSet := map[string]bool{}
	for _, n := range fns {
		inSet[n] = true
	}
	var bindFailures []*Obligation
	// dependency closure: a function whose contract is applied at a call site of a member is a member too (modular
	// proofs rest on the callee's contract, so the callee's own obligations belong to the property's check).  Members
	// added this way bring all their obligations except those that are listed as a known finding of another property
	// (that property's check reports them; here they remain assumptions and are listed as such).
	closure := map[string]string{}
	otherFinding := func(name string) *Finding {
		for _, f := range findings {
			if f.Kind == "finding" && f.Property != prop && (baseName(name) == f.Obligation || name == f.Obligation) {
				return f
			}
		}
		return nil
	}
	for fi := 0; fi < len(fns); fi++ {
		n := fns[fi]
		fc, err := e.genFunc(n)
		if err != nil {
			if (strings.Contains(err.Error(), "unknown identifier") || strings.Contains(err.Error(), "contract expression does not fit the code")) && e.funcs[n] != nil {
				// a contract that names something the function no longer has does not describe the code any
				// more: reported as a failed obligation of that function, not as a tool failure
				ob := &Obligation{Fn: n, Name: n + "#contract.binding", Kind: "anchor", Cond: "false", Guard: "true",
					Status: "failed", Solver: "contract binding", Src: "the contract of " + n + " no longer binds to its body: " + err.Error(), Pos: e.funcs[n].Pos()}
				bindFailures = append(bindFailures, ob)
				continue
			}
			e.toolErrors = append(e.toolErrors, fmt.Sprintf("%s: %v", n, err))
			continue
		}
		fcs = append(fcs, fc)
		for _, u := range fc.unsupported {
			unsupported[n+": "+u] = true
		}
		for u := range fc.uncontracted {
			uncontracted[u] = true
		}
		for u := range fc.externs {
			externs[u] = true
		}
		for _, c := range sortedKeys(fc.usedCons) {
			cc := e.cs.Funcs[c]
			if inSet[c] || cc == nil || cc.Opts["exclude"] != "" {
				continue
			}
			inSet[c] = true
			if fn := e.funcs[c]; fn != nil && fn.TypeParams().Len() > 0 && len(fn.TypeArgs()) == 0 {
				// generic: its instantiations carry the obligations
				for _, fname := range sortedFuncNames(e.funcs) {
					if strings.HasPrefix(fname, c+"[") && !inSet[fname] {
						inSet[fname] = true
						closure[fname] = n
						fns = append(fns, fname)
					}
				}
				continue
			}
			closure[c] = n
			fns = append(fns, c)
		}
		flt := ""
		if fc.con != nil && closure[n] == "" {
			flt = tagFilter(fc.con.Tags, prop)
		}
		kept := 0
		for _, ob := range fc.obls {
			if ob.Clause != nil && len(ob.Clause.Tags) > 0 && !hasTag(ob.Clause.Tags, prop) {
				continue
			}
			if closure[n] != "" {
				if f := otherFinding(ob.Name); f != nil {
					e.assume("%s: relies on %s, a known finding of %s (reported by that property's check)", prop, ob.Name, f.Property)
					continue
				}
			}
			if flt != "" && !strings.Contains(ob.Name, flt) {
				continue
			}
			all = append(all, ob)
			kept++
		}
		// a filtered membership that selects nothing would count the function for the property with no obligation
		if flt != "" && kept == 0 {
			e.toolErrors = append(e.toolErrors, fmt.Sprintf("%s: tag %s:%s selects none of its obligations", n, prop, flt))
		}
		// vacuity guard: the assumptions of the function (preconditions, callee postconditions, invariants) are consistent
		all = append(all, fc.canary())
	}
	// structural layout obligations of the generated record codecs (schema.go)
	switch prop {
	case "C01":
		all = append(all, e.layoutObligations([]string{"pack", "unpack"})...)
	case "C04":
		all = append(all, e.layoutObligations([]string{"pack"})...)
	case "C08":
		all = append(all, e.structuralObligations("len")...)
		// Len and Pack agree field by field only if pack follows the same schema (which names take the compress flag)
		all = append(all, e.layoutObligations([]string{"pack"})...)
	case "C09":
		// Truncate walks the sections with Len(rr): what len() counts per field, and that pack agrees on which names
		// are compressed, is as much its business as Len's
		all = append(all, e.structuralObligations("len")...)
		all = append(all, e.layoutObligations([]string{"pack"})...)
	case "C16":
		all = append(all, e.structuralObligations("copy")...)
		all = append(all, e.copyFieldObligations()...)
	case "C20":
		all = append(all, e.structuralObligations("isDuplicate")...)
		// a record and its copy are duplicates only if the copy has every field
		all = append(all, e.copyFieldObligations()...)
		all = append(all, e.structuralObligations("copy")...)
	case "C10":
		// what is signed is a copy of the records: the copy must have every field (APL negation flag, option fields)
		all = append(all, e.copyFieldObligations()...)
		all = append(all, e.canonObligations()...)
		all = append(all, e.algorithmTableObligations()...)
	case "C17", "C18":
		all = append(all, e.algorithmTableObligations()...)
	case "C05":
		all = append(all, e.parseWidthObligations()...)
		all = append(all, e.mnemonicTableObligations()...)
		all = append(all, e.textOrderObligations()...)
		all = append(all, e.printFormObligations()...)
		all = append(all, e.reversedTableObligations()...)
	case "C06":
		// keyword case does not change what a zone file denotes: the mnemonic lookups fold the token first
		for _, ob := range e.mnemonicTableObligations() {
			if strings.HasSuffix(ob.Name, "#mnemonics.folded") {
				all = append(all, ob)
			}
		}
	}
	if e.usesCtorTable {
		// some function of this check calls a record constructor read from TypeToRR and relies on what the table holds
		all = append(all, e.constructorTableObligations()...)
	}
	all = append(all, e.wirefmtObligations(prop)...)
	all = append(all, bindFailures...)
	// lemmas: those tagged with the property and those cited by the functions under contract
	lemmaSet := map[string]bool{}
	for _, l := range e.cs.Lemmas {
		if hasTag(l.Tags, prop) {
			lemmaSet[l.Name] = true
		}
	}
	for _, fc := range fcs {
		for _, n := range fc.lemmasUsed {
			lemmaSet[n] = true
		}
	}
	for _, n := range sortedKeys(lemmaSet) {
		lfc, err := e.lemmaCtx(e.lemma(n))
		if err != nil {
			e.toolErrors = append(e.toolErrors, fmt.Sprintf("lemma %s: %v", n, err))
			continue
		}
		all = append(all, lfc.obls...)
	}
	// known-finding regions: the obligation must hold outside the region
	for _, f := range findings {
		if f.Kind != "finding" || f.Property != prop || f.Region == "" {
			continue
		}
		for _, ob := range all {
			if baseName(ob.Name) == f.Obligation || ob.Name == f.Obligation {
				re, perr := parseExpr(f.Region)
				if perr != nil {
					e.toolErrors = append(e.toolErrors, "known finding region: "+perr.Error())
					continue
				}
				func() {
					defer func() {
						if r := recover(); r != nil {
							e.toolErrors = append(e.toolErrors, fmt.Sprintf("known finding region for %s: %v", ob.Name, r))
						}
					}()
					rg := ob.fc.evalBool(re, ob.fc.entryEnv())
					ob.Cond = or(rg, ob.Cond)
					ob.Src += "   [outside known-finding region " + f.Region + "]"
					f.Seen = true
				}()
			}
		}
	}
	e.dischargeAll(all)
	// escalate unknowns once with a longer timeout
	var unk []*Obligation
	for _, ob := range all {
		if ob.Status == "unknown" {
			// an obligation recorded as a known finding of this property has had its full first attempt; a longer
			// second one only delays the KNOWN-FINDING line (were it to prove at all, the entry would be stale)
			listed := false
			for _, f := range findings {
				if f.Kind == "finding" && f.Property == prop && f.Region == "" && (baseName(ob.Name) == f.Obligation || ob.Name == f.Obligation) {
					listed = true
				}
			}
			if !listed {
				unk = append(unk, ob)
			}
		}
	}
	if len(unk) > 0 && len(unk) <= 40 {
		save := e.timeout
		e.timeout = save * 3
		e.dischargeAll(unk)
		e.timeout = save
	}
	nOb, nDis, nViol := 0, 0, 0
	bySolver := map[string]int{}
	solverSec := 0.0
	var samples []map[string]interface{}
	undecided, knownSeen := []string{}, []string{}
	// a function with an obligation that is not discharged goes on under the assumption that it holds; when that
	// is plainly false (a constant argument) its later assumptions are contradictory for that reason, and the
	// failed obligation is what gets reported
	hasOpen := map[string]bool{}
	for _, ob := range all {
		if ob.Kind != "canary" && ob.Status != "proved" && ob.Status != "trivial" {
			hasOpen[ob.Fn] = true
		}
	}
	for _, ob := range all {
		if ob.Kind == "canary" {
			switch ob.Status {
			case "failed", "unknown": // satisfiable (or not refuted): good
			default:
				if !hasOpen[ob.Fn] {
					e.toolErrors = append(e.toolErrors, "VACUOUS: the assumptions of "+ob.Fn+" are contradictory (canary proved)")
				}
			}
			continue
		}
		nOb++
		solverSec += ob.Time
		if ob.Status == "proved" || ob.Status == "trivial" {
			nDis++
			s := ob.Solver
			if ob.Status == "trivial" {
				s = "syntactic"
			}
			bySolver[s]++
			if len(samples) < 12 && ob.Status == "proved" && nOb%7 == 1 {
				samples = append(samples, map[string]interface{}{"obligation": ob.Name, "status": ob.Status, "solver": ob.Solver, "time_s": round3(ob.Time), "source": ob.Src})
			}
			continue
		}
		// not discharged
		var kf *Finding
		for _, f := range findings {
			if f.Kind == "finding" && f.Property == prop && (f.Obligation == ob.Name || f.Obligation == baseName(ob.Name)) && f.Region == "" {
				kf = f
			}
		}
		if kf != nil {
			kf.Seen = true
			fmt.Printf("KNOWN-FINDING: property=%s %s (obligation %s, %s)\n", prop, kf.Text, ob.Name, ob.Status)
			knownSeen = append(knownSeen, ob.Name)
			nOb-- // a listed finding is reported, not claimed: it is counted neither as obligation nor as discharged
			continue
		}
		nViol++
		path := e.writeReplay(replayDir, prop, ob, replay && nViol <= 3)
		suffix := ""
		if !ob.Replayed {
			suffix = " no-failing-input-found"
		}
		fmt.Printf("VIOLATION property=%s replay=%s%s\n", prop, path, suffix)
		fmt.Printf("  obligation %s (%s by %s): %s\n", ob.Name, ob.Status, ob.Solver, ob.Src)
		if ob.Status == "unknown" {
			undecided = append(undecided, ob.Name)
		}
		samples = append(samples, map[string]interface{}{"obligation": ob.Name, "status": ob.Status, "solver": ob.Solver, "source": ob.Src})
	}
	for _, f := range findings {
		if f.Kind == "finding" && f.Property == prop && f.Region != "" && f.Seen {
			// the restricted obligation was checked above; report the finding itself
			fmt.Printf("KNOWN-FINDING: property=%s %s (obligation %s, region %s)\n", prop, f.Text, f.Obligation, f.Region)
			knownSeen = append(knownSeen, f.Obligation)
		}
	}
	if os.Getenv("GOVC_LEARN") != "" {
		// remember which obligations need the case-split strategy (speeds up later runs; never affects soundness)
		changed := false
		for _, ob := range all {
			if ob.Strategy == "split" && e.hints[baseName(ob.Name)] != "split" {
				e.hints[baseName(ob.Name)] = "split"
				changed = true
			}
			// an obligation that the plain encoding did not prove within its first budget: remember what did
			if ob.Strategy != "split" && ob.Status == "proved" && ob.Time >= 3 && strings.Contains(ob.Solver, "+") && !strings.Contains(ob.Solver, " ") {
				if h := "enc:" + ob.Solver; e.hints[baseName(ob.Name)] != h && e.hints[baseName(ob.Name)] != "split" {
					e.hints[baseName(ob.Name)] = h
					changed = true
				}
			}
		}
		if changed {
			os.MkdirAll("/verif/baseline", 0o755)
			b, _ := json.MarshalIndent(e.hints, "", " ")
			os.WriteFile("/verif/baseline/strategies.json", b, 0o644)
		}
	}
	// obligation-count guard
	minOb := e.baselineMin(prop)
	if nOb < minOb && len(bindFailures) == 0 {
		e.toolErrors = append(e.toolErrors, fmt.Sprintf("obligation count %d below the committed minimum %d for %s (contracts no longer bind?)", nOb, minOb, prop))
	}
	if len(samples) == 0 && len(all) > 0 {
		ob := all[0]
		samples = append(samples, map[string]interface{}{"obligation": ob.Name, "status": ob.Status, "solver": ob.Solver, "source": ob.Src})
	}
	// the slowest discharged obligations (a proof that needs most of the budget is the one that fails under load)
	slow := []*Obligation{}
	for _, ob := range all {
		if ob.Kind != "canary" && ob.Status == "proved" && ob.Time >= 2 {
			slow = append(slow, ob)
		}
	}
	sort.Slice(slow, func(i, j int) bool { return slow[i].Time > slow[j].Time })
	slowest := []map[string]interface{}{}
	for i, ob := range slow {
		if i == 10 {
			break
		}
		slowest = append(slowest, map[string]interface{}{"obligation": ob.Name, "solver": ob.Solver, "time_s": round3(ob.Time)})
	}
	relied := map[string]string{}
	trusted := []string{
		"golang.org/x/tools go/packages+go/ssa (source -> SSA translation)",
		"govc encoder (this tool)",
		"unsat answers of z3 4.8.12 / z3 5.1.0 / cvc5 1.0.x",
		"every slice/string length <= 2^50; signed 64-bit arithmetic treated as mathematical",
		"pointer receivers are non-nil",
	}
	for _, x := range sortedKeys(externs) {
		trusted = append(trusted, "extern: "+x)
	}
	for _, x := range sortedKeys(uncontracted) {
		if !inSet[x] {
			trusted = append(trusted, "callee without contract (assumed not to panic, result arbitrary): "+x)
		}
	}
	// contracts of callees that are relied on but verified elsewhere (or nowhere)
	for _, fc := range fcs {
		for name := range fc.calleeContracts {
			if inSet[name] {
				continue
			}
			c := e.cs.Funcs[name]
			if c == nil {
				if fn := e.funcs[name]; fn != nil {
					c = e.contractFor(fn)
				}
			}
			where := "NOT verified by any check (assumed)"
			if c != nil && len(c.Tags) > 0 {
				where = "verified under " + strings.Join(c.Tags, ",")
			}
			relied[name] = where
		}
	}
	for _, x := range sortedKeysS(relied) {
		trusted = append(trusted, "callee contract relied on: "+x+" — "+relied[x])
	}
	assumptions := []string{}
	assumptions = append(assumptions, sortedKeys(e.assumptions)...)
	assumptions = append(assumptions, sortedKeys(e.warnings)...)
	for _, u := range sortedKeys(unsupported) {
		assumptions = append(assumptions, "UNSUPPORTED (abstracted): "+u)
	}
	level := "proof"
	if nDis < nOb || len(e.toolErrors) > 0 {
		level = "other"
	}
	ev := evidence{PropertyID: prop, Tier: tier, Seed: seed, Level: level, WallS: round3(time.Since(t0).Seconds()), Violations: nViol,
		Assumptions: assumptions,
		Coverage: map[string]interface{}{
			"obligations": nOb, "discharged": nDis,
			"checker_cmd":              "/verif/bin/check " + prop + " --tier " + tier,
			"trusted_base":             trusted,
			"samples":                  samples,
			"slowest_over_2s":          slowest,
			"functions_under_contract": fns,
			"n_functions":              len(fns),
			"by_backend":               bySolver,
			"solver_seconds":           round3(solverSec),
			"undecided":                undecided,
			"known_findings_seen":      knownSeen,
			"tool_errors":              nonNil(e.toolErrors),
			"explanation":              "contract-based deductive verification: VCs generated from go/ssa of /repo's working tree, one SMT query per obligation",
		}}
	if evid != "" {
		os.MkdirAll(filepath.Dir(evid), 0o755)
		b, _ := json.MarshalIndent(ev, "", " ")
		os.WriteFile(evid, b, 0o644)
	}
	fmt.Printf("%s: functions=%d obligations=%d discharged=%d known=%d violations=%d wall=%.1fs\n", prop, len(fns), nOb, nDis, len(knownSeen), nViol, time.Since(t0).Seconds())
	for _, t := range e.toolErrors {
		fmt.Println("TOOL-ERROR", t)
	}
	if nViol > 0 {
		return 1
	}
	if len(e.toolErrors) > 0 {
		return 3
	}
	return 0
}

func round3(f float64) float64 { return float64(int(f*1000+0.5)) / 1000 }

func (fc *FnCtx) canary() *Obligation {
	return &Obligation{Fn: fc.name, Name: fc.name + "#canary", Kind: "canary", Cond: "false", Guard: "true", Prefix: len(fc.asserts), fc: fc}
}

func (e *Engine) baselineMin(prop string) int {
	b, err := os.ReadFile("/verif/baseline/obligations.json")
	if err != nil {
		return 1
	}
	var m map[string]int
	if json.Unmarshal(b, &m) != nil {
		return 1
	}
	if v, ok := m[prop]; ok {
		return v
	}
	return 1
}

// baseName strips the occurrence suffix "~n" of an obligation name.
func baseName(n string) string {
	if i := strings.LastIndex(n, "~"); i >= 0 {
		return n[:i]
	}
	return n
}

func sortedKeysS(m map[string]string) []string {
	var out []string
	for k := range m {
		out = append(out, k)
	}
	sort.Strings(out)
	return out
}

func nonNil(xs []string) []string {
	if xs == nil {
		return []string{}
	}
	return xs
}

func sortedFuncNames(m map[string]*ssa.Function) []string {
	var out []string
	for k := range m {
		out = append(out, k)
	}
	sort.Strings(out)
	return out
}
