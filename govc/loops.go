package main

import (
	"os"
	"strings"
	"fmt"
	"go/token"
	"go/types"

	"golang.org/x/tools/go/ssa"
)

type loopState struct {
	invs     []Clause
	auto     []autoInv
	decs     []Clause
	decHead  []string // measure terms at loop head
	headHeap HeapState
	phiVals  map[*ssa.Phi]Val
}

type autoInv struct {
	phi   *ssa.Phi
	op    string // ">=" or "<="
	bound ssa.Value
	label string
}

func (fc *FnCtx) loopMods(l *Loop) map[string]bool {
	mods := map[string]bool{}
	for b := range l.Body {
		for _, in := range b.Instrs {
			switch x := in.(type) {
			case *ssa.Store:
				storeHeaps(x.Addr, mods)
			case *ssa.Alloc:
				addTypeHeaps("M."+typeName(derefType(x.Type())), derefType(x.Type()), mods)
			case *ssa.MakeSlice:
				et := x.Type().Underlying().(*types.Slice).Elem()
				addTypeHeaps("A."+typeName(et), et, mods)
			case *ssa.Convert:
				if sl, ok := x.Type().Underlying().(*types.Slice); ok {
					addTypeHeaps("A."+typeName(sl.Elem()), sl.Elem(), mods)
				}
			case *ssa.MapUpdate:
				mods["MS."+typeName(x.Map.Type())] = true
			case *ssa.RunDefers:
				mods["*"] = true
			case ssa.CallInstruction:
				for h := range fc.callMods(x.Common()) {
					mods[h] = true
				}
			}
		}
	}
	return mods
}

// callMods: heap names a call may modify.
func (fc *FnCtx) callMods(c *ssa.CallCommon) map[string]bool {
	mods := map[string]bool{}
	if c.IsInvoke() {
		if con := fc.e.ifaceContract(c); con != nil && con.HasMod {
			for _, h := range con.Modifies {
				if i := strings.Index(h, "@"); i >= 0 {
					h = h[:i]
				}
				mods[h] = true
			}
			sig := c.Signature()
			for _, w := range con.Writes {
				for i := 0; i < sig.Params().Len(); i++ {
					if sig.Params().At(i).Name() == w && i < len(c.Args) {
						if sl, ok := c.Args[i].Type().Underlying().(*types.Slice); ok {
							addTypeHeaps("A."+typeName(sl.Elem()), sl.Elem(), mods)
						}
					}
				}
			}
			return mods
		}
		impls := fc.e.implementations(c)
		if impls == nil {
			if isErrorMethod(c) {
				return mods
			}
			mods["*"] = true
			return mods
		}
		for _, f := range impls {
			for h := range fc.e.modset(f) {
				mods[h] = true
			}
		}
		return mods
	}
	switch f := c.Value.(type) {
	case *ssa.Function:
		if con := fc.e.contractFor(f); con != nil && len(con.Writes) > 0 {
			for _, w := range con.Writes {
				for pi, p := range f.Params {
					if p.Name() == w && pi < len(c.Args) {
						if sl, ok := c.Args[pi].Type().Underlying().(*types.Slice); ok {
							addTypeHeaps("A."+typeName(sl.Elem()), sl.Elem(), mods)
						}
					}
				}
			}
			fc.confinedCallMods(con, f, c, mods)
			return mods
		}
		if con := fc.e.contractFor(f); con != nil && con.HasMod && hasConfined(con.Modifies) {
			fc.confinedCallMods(con, f, c, mods)
			return mods
		}
		if isExternNoContract(fc.e, f) {
			externArgHeaps(c, mods, false)
			if len(mods) > 0 && os.Getenv("GOVC_EXTERNW") != "" {
				fmt.Fprintf(os.Stderr, "EXTERNW %s in %s: %v\n", fnName(f), fc.name, sortedKeys(mods))
			}
			return mods
		}
		return fc.e.modset(f)
	case *ssa.MakeClosure:
		return fc.e.modset(f.Fn.(*ssa.Function))
	case *ssa.Builtin:
		switch f.Name() {
		case "append", "copy":
			if len(c.Args) > 0 {
				if sl, ok := c.Args[0].Type().Underlying().(*types.Slice); ok {
					addTypeHeaps("A."+typeName(sl.Elem()), sl.Elem(), mods)
				}
			}
		case "delete":
			if len(c.Args) > 0 {
				mods["MS."+typeName(c.Args[0].Type())] = true
			}
		}
		return mods
	}
	mods["*"] = true
	return mods
}

func isErrorMethod(c *ssa.CallCommon) bool {
	return c.Method != nil && c.Method.Name() == "Error" && types.TypeString(c.Value.Type(), nil) == "error"
}

func (fc *FnCtx) loopSpec(l *Loop) *LoopSpec {
	if fc.con == nil {
		return nil
	}
	ls, all := fc.con.Loops[l.Ordinal], fc.con.Loops[-1]
	if all == nil {
		return ls
	}
	if ls == nil {
		return all
	}
	return &LoopSpec{Invs: append(append([]Clause{}, all.Invs...), ls.Invs...), Decs: append(append([]Clause{}, all.Decs...), ls.Decs...)}
}

// autoInvariants: monotone counters  i := e; ...; i = i + c  give  i >= e  (checked like any other invariant).
func (fc *FnCtx) autoInvariants(l *Loop) []autoInv {
	var out []autoInv
	for _, in := range l.Head.Instrs {
		phi, ok := in.(*ssa.Phi)
		if !ok {
			break
		}
		if _, _, isInt := intBits(phi.Type()); !isInt {
			continue
		}
		var entry ssa.Value
		dir := 0
		okAll := true
		for i, p := range l.Head.Preds {
			ev := phi.Edges[i]
			if !fc.isBackEdge(p, l.Head) {
				if entry != nil && entry != ev {
					okAll = false
				}
				entry = ev
				continue
			}
			d := stepDir(phi, ev, 0)
			if d == 0 || (dir != 0 && d != dir) {
				okAll = false
			}
			dir = d
		}
		if !okAll || entry == nil || dir == 0 {
			continue
		}
		if dir > 0 {
			out = append(out, autoInv{phi, ">=", entry, "auto." + phi.Comment + ".lo"})
		} else {
			out = append(out, autoInv{phi, "<=", entry, "auto." + phi.Comment + ".hi"})
		}
	}
	return out
}

// stepDir: +1 if v is phi plus positive constants (possibly through inner phis), -1 if minus, 0 unknown.
func stepDir(phi *ssa.Phi, v ssa.Value, depth int) int {
	if depth > 6 {
		return 0
	}
	if v == phi {
		return 2 // unchanged (neutral)
	}
	switch x := v.(type) {
	case *ssa.BinOp:
		c, ok := x.Y.(*ssa.Const)
		if !ok || c.Value == nil {
			return 0
		}
		n, exact := constInt(c)
		if !exact || n <= 0 {
			return 0
		}
		d := stepDir(phi, x.X, depth+1)
		if d == 0 {
			return 0
		}
		switch x.Op {
		case token.ADD:
			if d == 2 || d == 1 {
				return 1
			}
		case token.SUB:
			if d == 2 || d == -1 {
				return -1
			}
		}
		return 0
	case *ssa.Phi:
		res := 2
		for _, e := range x.Edges {
			if e == x {
				continue
			}
			d := stepDir(phi, e, depth+1)
			if d == 0 {
				return 0
			}
			if d == 2 {
				continue
			}
			if res != 2 && res != d {
				return 0
			}
			res = d
		}
		return res
	}
	return 0
}

func constInt(c *ssa.Const) (int64, bool) {
	if c.Value == nil {
		return 0, false
	}
	defer func() { recover() }()
	return c.Int64(), true
}

func (fc *FnCtx) enterLoop(l *Loop, head *ssa.BasicBlock, iter func(yield func(from *ssa.BasicBlock, cond string, predIdx int))) {
	spec := fc.loopSpec(l)
	ls := &loopState{phiVals: map[*ssa.Phi]Val{}}
	if spec != nil {
		ls.invs = spec.Invs
		ls.decs = spec.Decs
	}
	ls.auto = fc.autoInvariants(l)
	if fc.lstates == nil {
		fc.lstates = map[*Loop]*loopState{}
	}
	fc.lstates[l] = ls
	var phis []*ssa.Phi
	for _, in := range head.Instrs {
		if phi, ok := in.(*ssa.Phi); ok {
			phis = append(phis, phi)
		} else {
			break
		}
	}
	saveReach := fc.curReach
	// 1. invariants hold on entry
	iter(func(from *ssa.BasicBlock, cond string, predIdx int) {
		fc.curReach = cond
		h := fc.exit[from].clone()
		phiMap := map[*ssa.Phi]Val{}
		for _, phi := range phis {
			phiMap[phi] = fc.val(phi.Edges[predIdx])
		}
		env := fc.loopEnv(l, phiMap, &h)
		for i := range ls.invs {
			cl := &ls.invs[i]
			f := fc.evalBool(cl.E, env)
			fc.oblige(fmt.Sprintf("loop%d.init", l.Ordinal), cl.Label, f, l.Pos, cl)
		}
		for _, a := range ls.auto {
			f := fmt.Sprintf("(%s %s %s)", a.op, phiMap[a.phi].S(), fc.val(a.bound).S())
			fc.oblige(fmt.Sprintf("loop%d.init", l.Ordinal), a.label, f, l.Pos, nil)
		}
		fc.exit[from] = h
	})
	fc.curReach = saveReach
	// 2. havoc
	mods := fc.loopMods(l)
	fc.havocLoop(&fc.cur, mods, l)
	fc.havocLoopBookkeeping(l)
	for _, phi := range phis {
		pv := fc.freshVal(phi.Name()+"."+phi.Comment, phi.Type())
		if f := fc.familyOf[phi]; f != nil {
			// member of a linear local append family: fixed private backing array, offset 0
			c := fc.familyConst(f)
			if f.nilRoot {
				fc.assert(fmt.Sprintf("(and (or (= %s 0) (= %s %s)) (= %s 0))", pv.C[0], pv.C[0], c, pv.C[1]))
			} else {
				pv.C[0], pv.C[1] = c, "0"
			}
		}
		fc.vals[phi] = pv
		ls.phiVals[phi] = pv
		fc.recordExisting(pv)
	}
	ls.headHeap = fc.cur.clone()
	// 3. assume invariants
	env := fc.loopEnv(l, ls.phiVals, &fc.cur)
	for i := range ls.invs {
		f := fc.evalBool(ls.invs[i].E, env)
		fc.assumeHere(f)
	}
	for _, a := range ls.auto {
		fc.assumeHere(fmt.Sprintf("(%s %s %s)", a.op, ls.phiVals[a.phi].S(), fc.val(a.bound).S()))
	}
	for i := range ls.decs {
		v := fc.evalExpr(ls.decs[i].E, env)
		ls.decHead = append(ls.decHead, v.S())
	}
	ls.headHeap = fc.cur.clone()
}

func (fc *FnCtx) closeLoop(l *Loop, latch *ssa.BasicBlock, cond string, predIdx int) {
	ls := fc.lstates[l]
	if ls == nil {
		return
	}
	saveReach := fc.curReach
	fc.curReach = cond
	h := fc.exit[latch].clone()
	phiMap := map[*ssa.Phi]Val{}
	for _, in := range l.Head.Instrs {
		if phi, ok := in.(*ssa.Phi); ok {
			phiMap[phi] = fc.val(phi.Edges[predIdx])
		} else {
			break
		}
	}
	env := fc.loopEnv(l, phiMap, &h)
	for i := range ls.invs {
		cl := &ls.invs[i]
		f := fc.evalBool(cl.E, env)
		fc.oblige(fmt.Sprintf("loop%d.step", l.Ordinal), cl.Label, f, l.Pos, cl)
	}
	for _, a := range ls.auto {
		f := fmt.Sprintf("(%s %s %s)", a.op, phiMap[a.phi].S(), fc.val(a.bound).S())
		fc.oblige(fmt.Sprintf("loop%d.step", l.Ordinal), a.label, f, l.Pos, nil)
	}
	if len(ls.decs) > 0 {
		// lexicographic decrease, each component bounded below by 0
		var now []string
		for i := range ls.decs {
			now = append(now, fc.evalExpr(ls.decs[i].E, env).S())
		}
		var alts []string
		prefixEq := "true"
		for i := range now {
			alts = append(alts, and(prefixEq, fmt.Sprintf("(< %s %s)", now[i], ls.decHead[i]), fmt.Sprintf("(<= 0 %s)", ls.decHead[i])))
			prefixEq = and(prefixEq, fmt.Sprintf("(= %s %s)", now[i], ls.decHead[i]))
		}
		fc.oblige(fmt.Sprintf("loop%d.dec", l.Ordinal), "", or(alts...), l.Pos, &ls.decs[0])
	}
	fc.exit[latch] = h
	fc.curReach = saveReach
}

// loopEnv resolves names for loop invariants: phi variables by their source name, otherwise the
// dominating definition; old(x) = parameter entry value / entry heap.
func (fc *FnCtx) loopEnv(l *Loop, phiMap map[*ssa.Phi]Val, h *HeapState) *Env {
	head := l.Head
	return &Env{fc: fc, heap: h, old: &fc.entry,
		lookup: func(name string) (Val, bool) {
			for phi, v := range phiMap {
				if phi.Comment == name {
					return v, true
				}
			}
			if g, ok := fc.ghosts[name]; ok {
				if ab := fc.ghostAt[name]; ab != nil && ab != head && ab.Dominates(head) {
					return g, true
				}
			}
			return fc.varAt(name, head, h)
		},
		oldLookup: fc.paramLookup,
	}
}

func (fc *FnCtx) paramLookup(name string) (Val, bool) {
	if fc.fn == nil {
		return Val{}, false
	}
	for i, p := range fc.fn.Params {
		if p.Name() == name || (name == "recv" && i == 0 && fc.fn.Signature.Recv() != nil) {
			return fc.val(p), true
		}
	}
	for _, p := range fc.fn.FreeVars {
		if p.Name() == name {
			return fc.val(p), true
		}
	}
	return Val{}, false
}

// varAt finds the value of source variable `name` at the entry of block at (excluding at's own phis).
func (fc *FnCtx) varAt(name string, at *ssa.BasicBlock, h *HeapState) (Val, bool) {
	return fc.resolveVar(name, at, -1, h)
}

// resolveVar: the value of source variable `name` just before instruction idx of block at (idx -1: at block
// entry, before its phis).  Candidates are debug references and phis carrying the variable's name in
// blocks that dominate the point; the latest one wins.
func (fc *FnCtx) resolveVar(name string, at *ssa.BasicBlock, idx int, h *HeapState) (Val, bool) {
	type cand struct {
		b    *ssa.BasicBlock
		idx  int
		v    ssa.Value
		addr bool
		obj  types.Object
	}
	var best *cand
	consider := func(c cand) {
		if c.b == at {
			if idx < 0 || c.idx > idx {
				return
			}
		} else if !c.b.Dominates(at) {
			return
		}
		if _, done := fc.vals[c.v]; !done {
			switch c.v.(type) {
			case *ssa.Const, *ssa.Parameter, *ssa.Global, *ssa.Function:
			default:
				return
			}
		}
		if best == nil || (best.b != c.b && best.b.Dominates(c.b)) || (best.b == c.b && c.idx >= best.idx) {
			cc := c
			best = &cc
		}
	}
	for _, r := range fc.varRefs[name] {
		consider(cand{r.block, r.idx, r.v, r.addr, r.obj})
	}
	for _, b := range fc.fn.Blocks {
		for i, in := range b.Instrs {
			phi, ok := in.(*ssa.Phi)
			if !ok {
				break
			}
			if phi.Comment == name {
				consider(cand{b, i - len(b.Instrs) - 1, phi, false, nil}) // phis come before everything else in the block
			}
		}
	}
	if best != nil && !best.addr && best.obj != nil {
		// a variable that lives in memory (its address is taken somewhere) is read from memory: the value a
		// debug reference recorded at an assignment may be stale after a loop head or a store through a pointer
		for _, r := range fc.varRefs[name] {
			if r.addr && r.obj == best.obj && (r.block == at || r.block.Dominates(at)) {
				if _, done := fc.vals[r.v]; done {
					best = &cand{r.block, r.idx, r.v, true, r.obj}
					break
				}
			}
		}
	}
	if best != nil {
		if best.addr {
			lv := fc.loadLoc(h, fc.locOf(best.v))
			if ti := fc.typeInv(lv); ti != "" && ti != "true" {
				fc.assumeHere(ti)
			}
			return lv, true
		}
		return fc.val(best.v), true
	}
	return fc.paramLookup(name)
}

// confinedCallMods: `modifies H@p` havocs heap H at the call unless the argument bound to p is the nil literal
// (which designates no object).
func (fc *FnCtx) confinedCallMods(con *Contract, f *ssa.Function, c *ssa.CallCommon, mods map[string]bool) {
	for _, h := range con.Modifies {
		if i := strings.Index(h, "@"); i >= 0 {
			pn := h[i+1:]
			h = h[:i]
			skip := false
			for pi, p := range f.Params {
				if (p.Name() == pn || (pn == "recv" && pi == 0)) && pi < len(c.Args) && isNilRefConst(c.Args[pi]) {
					skip = true
				}
			}
			if skip {
				continue
			}
		}
		mods[h] = true
	}
}

// addrOfVar: the address (allocation reference) of a local variable that lives in memory, and its type.
func (fc *FnCtx) addrOfVar(name string) (string, types.Type) {
	for _, r := range fc.varRefs[name] {
		if !r.addr {
			continue
		}
		if v, ok := fc.vals[r.v]; ok && len(v.C) == 1 {
			return v.C[0], derefType(r.v.Type())
		}
	}
	return "", nil
}

// havocLoopBookkeeping: the call-tracking cells (called("F"), callres("F"), sends()) that the loop body updates
// hold, at the loop head, whatever an earlier iteration left there.
func (fc *FnCtx) havocLoopBookkeeping(l *Loop) {
	tr := fc.trackedCalls()
	for b := range l.Body {
		for _, in := range b.Instrs {
			switch x := in.(type) {
			case *ssa.Send:
				fc.cur.m["$sends"] = fc.fresh("$sends", SInt)
			case *ssa.Call:
				for _, n := range callName(x) {
					if !tr[n] {
						continue
					}
					fc.cur.m["$called."+n] = fc.fresh("$called."+n, SBool)
					for name := range fc.cur.m {
						if strings.HasPrefix(name, "$cr."+n+".") {
							fc.cur.m[name] = "" // refreshed lazily with its sort at the next use
						}
					}
				}
			}
		}
	}
}
