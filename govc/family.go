package main

// Linear local append families.
//
// A slice variable that starts as make(...) or nil, is only ever extended by append (each value appended
// from at most once) and never written through by index, has the same observable contents whether or not
// append reallocates.  Such a family is modelled on one private backing array (a single allocation
// constant, offset 0), which keeps the verification conditions free of the in-place/reallocate case split
// and of the quantified copy axioms.

import (
	"go/types"

	"golang.org/x/tools/go/ssa"
)

type family struct {
	root    ssa.Value
	nilRoot bool
	c       string // allocation constant of the private backing array
	members map[ssa.Value]bool
}

func (fc *FnCtx) findFamilies() {
	fc.familyOf = map[ssa.Value]*family{}
	for _, b := range fc.fn.Blocks {
		for _, in := range b.Instrs {
			var root ssa.Value
			switch x := in.(type) {
			case *ssa.MakeSlice:
				root = x
			case *ssa.Slice:
				// make([]T, n, constcap) compiles to `new [cap]T (makeslice)` + slice
				if al, ok := x.X.(*ssa.Alloc); ok && al.Comment == "makeslice" && x.Low == nil && al.Referrers() != nil && len(*al.Referrers()) == 1 {
					root = x
				}
			}
			if root != nil {
				fc.tryFamily(root, false)
			}
		}
	}
	// nil-rooted: phis / appends whose chain starts at a nil constant
	for _, b := range fc.fn.Blocks {
		for _, in := range b.Instrs {
			switch x := in.(type) {
			case *ssa.Phi:
				if _, ok := x.Type().Underlying().(*types.Slice); !ok || fc.familyOf[x] != nil {
					continue
				}
				for _, e := range x.Edges {
					if isNilConst(e) {
						fc.tryFamily(x, true)
						break
					}
				}
			case *ssa.Call:
				if bi, ok := x.Call.Value.(*ssa.Builtin); ok && bi.Name() == "append" && fc.familyOf[x] == nil {
					if isNilConst(x.Call.Args[0]) {
						fc.tryFamily(x, true)
					}
				}
			}
		}
	}
}

func (fc *FnCtx) tryFamily(start ssa.Value, nilRoot bool) {
	f := &family{root: start, nilRoot: nilRoot, members: map[ssa.Value]bool{}}
	ok := true
	var walk func(v ssa.Value)
	walk = func(v ssa.Value) {
		if f.members[v] || !ok {
			return
		}
		if other := fc.familyOf[v]; other != nil {
			ok = false
			return
		}
		f.members[v] = true
		refs := v.Referrers()
		if refs == nil {
			return
		}
		appends := 0
		for _, r := range *refs {
			switch u := r.(type) {
			case *ssa.Phi:
				// every other edge must be a member or nil (checked at the end)
				walk(u)
			case *ssa.Call:
				if bi, isB := u.Call.Value.(*ssa.Builtin); isB && bi.Name() == "append" && len(u.Call.Args) > 0 && u.Call.Args[0] == v {
					appends++
					walk(u)
					continue
				}
			case *ssa.IndexAddr:
				if u.X == v {
					// element address: only loads allowed
					if er := u.Referrers(); er != nil {
						for _, r2 := range *er {
							if st, isSt := r2.(*ssa.Store); isSt && st.Addr == u {
								ok = false
							}
						}
					}
				}
			}
		}
		if appends > 1 {
			ok = false
		}
	}
	walk(start)
	if !ok {
		return
	}
	// phi members: all edges are members or nil
	for m := range f.members {
		if phi, isPhi := m.(*ssa.Phi); isPhi {
			for _, e := range phi.Edges {
				if !f.members[e] && !isNilConst(e) {
					return
				}
				if isNilConst(e) {
					f.nilRoot = true
				}
			}
		}
		if call, isCall := m.(*ssa.Call); isCall {
			a0 := call.Call.Args[0]
			if !f.members[a0] && !isNilConst(a0) {
				return
			}
		}
	}
	hasAppend := false
	for m := range f.members {
		if _, isCall := m.(*ssa.Call); isCall {
			hasAppend = true
		}
	}
	if !hasAppend {
		return
	}
	for m := range f.members {
		fc.familyOf[m] = f
	}
}

func (fc *FnCtx) familyConst(f *family) string {
	if f.c == "" {
		save := fc.curReach
		f.c = fc.allocRef("fam."+f.root.Name(), f.root.Type()).S()
		fc.curReach = save
	}
	return f.c
}
