package main

// Flow-sensitive escape information for local allocations: a pointer that comes back from a call, a load or
// any other havoc cannot alias a local allocation whose address has not yet been handed out.

import (
	"fmt"
	"go/types"

	"golang.org/x/tools/go/ssa"
)

type sinkPos struct {
	b   *ssa.BasicBlock
	idx int
}

type escInfo struct {
	derived map[ssa.Value]map[ssa.Value]bool // allocation -> the values that are (parts of) its address
	sinks map[ssa.Value][]sinkPos // allocation instruction -> positions where its address is handed out
	reach map[*ssa.BasicBlock]map[*ssa.BasicBlock]bool
}

func (fc *FnCtx) escapeInfo() *escInfo {
	if fc.esc != nil {
		return fc.esc
	}
	ei := &escInfo{derived: map[ssa.Value]map[ssa.Value]bool{}, sinks: map[ssa.Value][]sinkPos{}, reach: map[*ssa.BasicBlock]map[*ssa.BasicBlock]bool{}}
	fc.esc = ei
	idxOf := map[ssa.Instruction]int{}
	for _, b := range fc.fn.Blocks {
		for i, in := range b.Instrs {
			idxOf[in] = i
		}
		// reachability (strict: via at least one edge)
		r := map[*ssa.BasicBlock]bool{}
		stack := append([]*ssa.BasicBlock{}, b.Succs...)
		for len(stack) > 0 {
			x := stack[len(stack)-1]
			stack = stack[:len(stack)-1]
			if r[x] {
				continue
			}
			r[x] = true
			stack = append(stack, x.Succs...)
		}
		ei.reach[b] = r
	}
	for _, b := range fc.fn.Blocks {
		for _, in := range b.Instrs {
			switch a := in.(type) {
			case *ssa.Alloc, *ssa.MakeSlice, *ssa.MakeMap:
				root := a.(ssa.Value)
				seen := map[ssa.Value]bool{}
				var walk func(v ssa.Value)
				walk = func(v ssa.Value) {
					if seen[v] {
						return
					}
					seen[v] = true
					refs := v.Referrers()
					if refs == nil {
						return
					}
					for _, r := range *refs {
						sink := false
						switch u := r.(type) {
						case *ssa.FieldAddr:
							walk(u)
						case *ssa.IndexAddr:
							if u.X == v {
								walk(u)
							}
						case *ssa.Slice:
							walk(u)
						case *ssa.ChangeType:
							walk(u)
						case *ssa.Phi:
							walk(u)
						case *ssa.UnOp, *ssa.DebugRef, *ssa.Field, *ssa.Index, *ssa.Lookup, *ssa.BinOp, *ssa.If, *ssa.Range:
							// loads, comparisons
						case *ssa.Return:
							// handed to the caller only when this function is over: nothing here can observe it
						case *ssa.Store:
							if u.Val == v {
								sink = true
							}
						case *ssa.MapUpdate:
							if u.Map != v {
								sink = true
							}
						case ssa.CallInstruction:
							c := u.Common()
							if bi, ok := c.Value.(*ssa.Builtin); ok {
								switch bi.Name() {
								case "len", "cap", "delete", "clear", "min", "max", "print", "println":
								case "append":
									if len(c.Args) > 0 && c.Args[0] == v {
										if val, ok := u.(ssa.Value); ok {
											walk(val)
										}
									} else if elemHasPointers(v.Type()) {
										sink = true
									}
								case "copy":
									if elemHasPointers(v.Type()) {
										sink = true
									}
								default:
									sink = true
								}
							} else if call, isCall := u.(*ssa.Call); isCall && fc.e.callKeepsNone(call, v) {
								// a module function that neither stores, returns nor passes on the address
							} else {
								sink = true
							}
						default:
							sink = true
						}
						if sink {
							ei.sinks[root] = append(ei.sinks[root], sinkPos{r.Block(), idxOf[r]})
						}
					}
				}
				walk(root)
				ei.derived[root] = seen
			}
		}
	}
	return ei
}

func elemHasPointers(t types.Type) bool {
	if sl, ok := t.Underlying().(*types.Slice); ok {
		switch kindOf(sl.Elem()) {
		case KInt, KBool:
			return false
		}
		return true
	}
	return true
}

func (ei *escInfo) escapedAt(a ssa.Value, b *ssa.BasicBlock, idx int) bool {
	for _, s := range ei.sinks[a] {
		if s.b == b && s.idx <= idx {
			return true
		}
		if ei.reach[s.b][b] {
			return true
		}
	}
	return false
}

// refTerms lists the reference-like component terms of a value.
func refTerms(v Val) []string {
	var refs []string
	var collect func(v Val)
	collect = func(v Val) {
		switch v.K {
		case KSlice, KPtr:
			if _, isFn := v.T.Underlying().(*types.Signature); !isFn {
				refs = append(refs, v.C[0])
			}
		case KIface:
			refs = append(refs, v.C[1])
		case KStruct, KTuple:
			n := 0
			switch u := v.T.Underlying().(type) {
			case *types.Struct:
				n = u.NumFields()
			case *types.Tuple:
				n = u.Len()
			}
			for i := 0; i < n; i++ {
				lo, hi, ft := fieldRange(v.T, i)
				collect(mkVal(ft, v.C[lo:hi]))
			}
		}
	}
	collect(v)
	return refs
}

// recordExisting remembers reference values of unknown origin (parameters, loop/merge phis, call results,
// loaded pointers): an object allocated later is different from all of them.
func (fc *FnCtx) recordExisting(v Val) {
	for _, r := range refTerms(v) {
		if _, isLit := litOf(r); isLit {
			continue
		}
		fc.existing = append(fc.existing, existingRef{fc.curBlock, r})
	}
}

type existingRef struct {
	b    *ssa.BasicBlock
	term string
}

// newIsNew: the reference just allocated differs from every reference value that existed before.
func (fc *FnCtx) newIsNew(r string) {
	for _, x := range fc.existing {
		if x.term == r {
			continue
		}
		if x.b == nil || x.b == fc.curBlock || (fc.curBlock != nil && x.b.Dominates(fc.curBlock)) {
			fc.assumeHere(fmt.Sprintf("(not (= %s %s))", r, x.term))
		}
	}
}

// noAliasLocal: assume that the pointer components of v differ from every local allocation not yet escaped.
func (fc *FnCtx) noAliasLocal(v Val) {
	if len(fc.allocSite) == 0 {
		return
	}
	var refs []string
	var collect func(v Val)
	collect = func(v Val) {
		switch v.K {
		case KSlice, KPtr:
			if _, isFn := v.T.Underlying().(*types.Signature); !isFn {
				refs = append(refs, v.C[0])
			}
		case KIface:
			refs = append(refs, v.C[1])
		case KStruct, KTuple:
			n := 0
			switch u := v.T.Underlying().(type) {
			case *types.Struct:
				n = u.NumFields()
			case *types.Tuple:
				n = u.Len()
			}
			for i := 0; i < n; i++ {
				lo, hi, ft := fieldRange(v.T, i)
				collect(mkVal(ft, v.C[lo:hi]))
			}
		}
	}
	collect(v)
	if len(refs) == 0 {
		return
	}
	ei := fc.escapeInfo()
	for a, c := range fc.allocSite {
		if ei.escapedAt(a, fc.curBlock, fc.curIdx) {
			continue
		}
		for _, r := range refs {
			if r == c {
				continue
			}
			fc.assumeHere(fmt.Sprintf("(not (= %s %s))", r, c))
			for _, sub := range fc.localSubs[c] {
				if sub != r {
					fc.assumeHere(fmt.Sprintf("(not (= %s %s))", r, sub))
				}
			}
		}
	}
}

// havocCall havocs the heaps a call may modify but keeps the contents of local allocations whose address
// has not been handed out (nobody else can reach them).
func (fc *FnCtx) havocCall(h *HeapState, mods map[string]bool) {
	if len(mods) == 0 {
		return
	}
	old := h.clone()
	fc.havocSet(h, mods)
	if len(fc.allocSite) == 0 {
		return
	}
	ei := fc.escapeInfo()
	for a, c := range fc.allocSite {
		if ei.escapedAt(a, fc.curBlock, fc.curIdx) {
			continue
		}
		if fc.curCall != nil && ei.passedTo(a, fc.curCall) {
			// not handed out for good (the callee does not keep it), but this very call works on it
			continue
		}
		fc.restoreLocal(h, &old, a, c, mods)
	}
}

// passedTo: the call receives the address of allocation a, or of a part of it (receiver included).
func (ei *escInfo) passedTo(a ssa.Value, c *ssa.CallCommon) bool {
	d := ei.derived[a]
	if d == nil {
		return false
	}
	for _, arg := range c.Args {
		if d[arg] {
			return true
		}
	}
	if c.IsInvoke() && d[c.Value] {
		return true
	}
	if mc, ok := c.Value.(*ssa.MakeClosure); ok {
		for _, b := range mc.Bindings {
			if d[b] {
				return true
			}
		}
	}
	return false
}

// restoreLocal: the heaps of local allocation a (reference term c) keep their pre-havoc contents.
func (fc *FnCtx) restoreLocal(h, old *HeapState, a ssa.Value, c string, mods map[string]bool) {
	names := map[string]bool{}
	switch x := a.(type) {
	case *ssa.Alloc:
		t := derefType(x.Type())
		addTypeHeaps("M."+typeName(t), t, names)
	case *ssa.MakeSlice:
		et := x.Type().Underlying().(*types.Slice).Elem()
		addTypeHeaps("A."+typeName(et), et, names)
	}
	for _, name := range sortedKeys(names) {
		if !(mods["*"] || mods[name]) {
			continue
		}
		sort, known := fc.heapSort[name]
		if !known {
			continue
		}
		oldT := fc.getHeapTerm(old, name, sort)
		newT := fc.getHeapTerm(h, name, sort)
		fc.heapSet(h, name, sort, fmt.Sprintf("(store %s %s (select %s %s))", newT, c, oldT, c))
	}
}

// havocLoop havocs what a loop may modify at its head, but a local allocation made before the loop whose
// address is never handed out and that the loop body does not store into keeps its contents.
func (fc *FnCtx) havocLoop(h *HeapState, mods map[string]bool, l *Loop) {
	if len(mods) == 0 {
		return
	}
	old := h.clone()
	fc.havocSet(h, mods)
	ei := fc.escapeInfo()
	for a, c := range fc.allocSite {
		in, ok := a.(ssa.Instruction)
		if !ok || len(ei.sinks[a]) > 0 || l.Body[in.Block()] || writtenInLoop(a, l) {
			continue
		}
		fc.restoreLocal(h, &old, a, c, mods)
	}
}

func rootOf(v ssa.Value, depth int) ssa.Value {
	if depth > 12 {
		return v
	}
	switch x := v.(type) {
	case *ssa.FieldAddr:
		return rootOf(x.X, depth+1)
	case *ssa.IndexAddr:
		return rootOf(x.X, depth+1)
	case *ssa.Slice:
		return rootOf(x.X, depth+1)
	case *ssa.ChangeType:
		return rootOf(x.X, depth+1)
	}
	return v
}

func writtenInLoop(a ssa.Value, l *Loop) bool {
	for b := range l.Body {
		for _, in := range b.Instrs {
			switch x := in.(type) {
			case *ssa.Store:
				if rootOf(x.Addr, 0) == a {
					return true
				}
			case *ssa.MapUpdate:
				if rootOf(x.Map, 0) == a {
					return true
				}
			case ssa.CallInstruction:
				for _, arg := range x.Common().Args {
					if rootOf(arg, 0) == a {
						return true
					}
				}
			}
		}
	}
	return false
}

func (fc *FnCtx) isAllocConst(term string) bool {
	for _, c := range fc.allocSite {
		if c == term {
			return true
		}
	}
	return false
}

// callKeepsNone: the statically known callee retains none of the arguments that are v (see retains).
func (e *Engine) callKeepsNone(call *ssa.Call, v ssa.Value) bool {
	e.retainMu.Lock()
	defer e.retainMu.Unlock()
	return e.keepsNone(call, v)
}

func (e *Engine) keepsNone(call *ssa.Call, v ssa.Value) bool {
	c := call.Common()
	callee := c.StaticCallee()
	if c.IsInvoke() || callee == nil || len(callee.Blocks) == 0 || len(callee.Params) != len(c.Args) {
		return false
	}
	if callee.Pkg != e.dns && !(callee.Origin() != nil && callee.Origin().Pkg == e.dns) {
		return false // only functions of the module are looked into
	}
	if _, isClosure := c.Value.(*ssa.MakeClosure); isClosure {
		return false
	}
	for i, a := range c.Args {
		if a == v && e.retains(callee, i) {
			return false
		}
	}
	return true
}

// retains: may function fn keep parameter i (or an address derived from it) beyond its own activation - by
// storing it, returning it, capturing it or handing it to a callee that does?  Conservative: anything not
// recognised, every cycle and every dynamic call counts as retaining.
func (e *Engine) retains(fn *ssa.Function, i int) bool {
	if e.retainMemo == nil {
		e.retainMemo = map[*ssa.Parameter]bool{}
	}
	p := fn.Params[i]
	if r, ok := e.retainMemo[p]; ok {
		if e.retainBusy[p] {
			e.retainCycles++
		}
		return r
	}
	if e.retainBusy == nil {
		e.retainBusy = map[*ssa.Parameter]bool{}
	}
	if len(e.retainBusy) >= 5 {
		e.retainCycles++ // too deep: retains, and (like a cycle) not an answer to cache
		return true
	}
	// in progress: a cycle retains (the whole computation runs under retainMu); an answer that leaned on an
	// in-progress entry is not cached, so every answer depends on the queried function alone, not on query order
	e.retainMemo[p], e.retainBusy[p] = true, true
	cycles0 := e.retainCycles
	kept := false
	seen := map[ssa.Value]bool{}
	var walk func(v ssa.Value)
	walk = func(v ssa.Value) {
		if kept || seen[v] {
			return
		}
		seen[v] = true
		refs := v.Referrers()
		if refs == nil {
			return
		}
		for _, r := range *refs {
			switch u := r.(type) {
			case *ssa.FieldAddr:
				walk(u)
			case *ssa.IndexAddr:
				if u.X == v {
					walk(u)
				}
			case *ssa.Slice, *ssa.ChangeType, *ssa.Phi:
				walk(u.(ssa.Value))
			case *ssa.UnOp, *ssa.DebugRef, *ssa.Field, *ssa.Index, *ssa.Lookup, *ssa.BinOp, *ssa.If, *ssa.Range:
			case *ssa.Store:
				if u.Val == v {
					kept = true
				}
			case *ssa.Call:
				c := u.Common()
				if bi, isB := c.Value.(*ssa.Builtin); isB {
					switch bi.Name() {
					case "len", "cap", "delete", "clear", "min", "max", "print", "println":
					case "copy":
						if elemHasPointers(v.Type()) {
							kept = true
						}
					default:
						kept = true
					}
				} else if !e.keepsNone(u, v) {
					kept = true
				}
			default:
				kept = true
			}
			if kept {
				return
			}
		}
	}
	walk(p)
	delete(e.retainBusy, p)
	if e.retainCycles != cycles0 && len(e.retainBusy) > 0 {
		delete(e.retainMemo, p)
	} else {
		e.retainMemo[p] = kept
	}
	return kept
}
