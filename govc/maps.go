package main

// Maps: a map value is a reference; its contents are an abstract state  MS.<type>[ref]  with uninterpreted
// access functions.  Keys are identified by their value components: for string keys that is the triple
// (array, offset, length), so only *the very same string value* is known to hit an entry that was stored
// under it; whether two different string values with equal contents collide is left open (sound, incomplete).
// This is enough to state and check key exactness ("looked up under exactly s", "stored under exactly s").

import (
	"fmt"
	"go/types"
	"strings"

	"golang.org/x/tools/go/ssa"
)

type mapSyms struct {
	name           string
	keySorts, valSorts []string
	valType        types.Type
}

func (fc *FnCtx) mapSymbols(mt types.Type) *mapSyms {
	m := mt.Underlying().(*types.Map)
	tn := typeName(mt)
	ms := &mapSyms{name: tn, keySorts: sortsOf(m.Key()), valSorts: sortsOf(m.Elem()), valType: m.Elem()}
	ks := strings.Join(ms.keySorts, " ")
	key := "maps." + tn
	if fc.declared[key] {
		return ms
	}
	fc.declared[key] = true
	fc.declareFun(mangle("mhas."+tn), "(Int "+ks+") Bool")
	fc.declareFun(mangle("mdel."+tn), "(Int "+ks+") Int")
	fc.declareFun(mangle("mput."+tn), "(Int "+ks+" "+strings.Join(ms.valSorts, " ")+") Int")
	fc.declareFun(mangle("mlen."+tn), "(Int) Int")
	fc.declare(mangle("mempty."+tn), SInt)
	names := compNames(m.Elem())
	var qk, ka []string
	for i, s := range ms.keySorts {
		qk = append(qk, fmt.Sprintf("(k%d %s)", i, s))
		ka = append(ka, fmt.Sprintf("k%d", i))
	}
	var qv, va []string
	for i, s := range ms.valSorts {
		qv = append(qv, fmt.Sprintf("(v%d %s)", i, s))
		va = append(va, fmt.Sprintf("v%d", i))
	}
	put := fmt.Sprintf("(%s st %s %s)", mangle("mput."+tn), strings.Join(ka, " "), strings.Join(va, " "))
	for i, s := range ms.valSorts {
		fc.declareFun(mangle("mget."+tn+"."+names[i]), "(Int "+ks+") "+s)
		fc.assertGlobal(fmt.Sprintf("(forall ((st Int) %s %s) (! (= (%s %s %s) v%d) :pattern (%s)))",
			strings.Join(qk, " "), strings.Join(qv, " "), mangle("mget."+tn+"."+names[i]), put, strings.Join(ka, " "), i, put))
	}
	fc.assertGlobal(fmt.Sprintf("(forall ((st Int) %s %s) (! (%s %s %s) :pattern (%s)))",
		strings.Join(qk, " "), strings.Join(qv, " "), mangle("mhas."+tn), put, strings.Join(ka, " "), put))
	delT := fmt.Sprintf("(%s st %s)", mangle("mdel."+tn), strings.Join(ka, " "))
	fc.assertGlobal(fmt.Sprintf("(forall ((st Int) %s) (! (not (%s %s %s)) :pattern (%s)))",
		strings.Join(qk, " "), mangle("mhas."+tn), delT, strings.Join(ka, " "), delT))
	fc.assertGlobal(fmt.Sprintf("(forall (%s) (not (%s %s %s)))", strings.Join(qk, " "), mangle("mhas."+tn), mangle("mempty."+tn), strings.Join(ka, " ")))
	fc.assertGlobal(fmt.Sprintf("(forall ((st Int)) (<= 0 (%s st)))", mangle("mlen."+tn)))
	fc.assertGlobal(fmt.Sprintf("(= (%s %s) 0)", mangle("mlen."+tn), mangle("mempty."+tn)))
	return ms
}

func (fc *FnCtx) mapState(h *HeapState, mt types.Type, ref string) string {
	hn := "MS." + typeName(mt)
	return fmt.Sprintf("(select %s %s)", fc.getHeapTerm(h, hn, arrOf(SInt)), ref)
}

func (fc *FnCtx) mapHas(h *HeapState, mt types.Type, ref string, key Val) string {
	ms := fc.mapSymbols(mt)
	return fmt.Sprintf("(%s %s %s)", mangle("mhas."+ms.name), fc.mapState(h, mt, ref), strings.Join(key.C, " "))
}

func (fc *FnCtx) mapGet(h *HeapState, mt types.Type, ref string, key Val) Val {
	ms := fc.mapSymbols(mt)
	names := compNames(ms.valType)
	comps := make([]string, len(ms.valSorts))
	for i := range ms.valSorts {
		comps[i] = fmt.Sprintf("(%s %s %s)", mangle("mget."+ms.name+"."+names[i]), fc.mapState(h, mt, ref), strings.Join(key.C, " "))
	}
	return mkVal(ms.valType, comps)
}

func (fc *FnCtx) mapLookup(x *ssa.Lookup) {
	mt := x.X.Type()
	m := fc.val(x.X)
	key := fc.val(x.Index)
	has := fc.mapHas(&fc.cur, mt, m.S(), key)
	got := fc.mapGet(&fc.cur, mt, m.S(), key)
	z := zeroComps(got.T)
	comps := make([]string, len(got.C))
	for i := range got.C {
		comps[i] = ite(has, got.C[i], z[i])
	}
	if x.CommaOk {
		comps = append(comps, has)
	}
	fc.setVal(x, mkVal(x.Type(), comps))
	// stored values satisfy their type invariants
	res := fc.vals[x]
	val := res
	if x.CommaOk {
		lo, hi, ft := fieldRange(x.Type(), 0)
		val = mkVal(ft, res.C[lo:hi])
	}
	fc.assert(fc.typeInv(val))
	fc.mapInvAssume(x)
	// TypeToRR holds a constructor for every type code of the record schema (the domain half of the structural
	// obligation UnpackRRWithHeader#table.constructors): a miss means the code is none of them
	if _, isTable := tableLookupKey(x); isTable && x.CommaOk {
		fc.e.usesCtorTable = true
		fc.e.assume("%s: no entry of TypeToRR is deleted at run time, so a code the package initialiser registered is found", fc.name)
		k := key.S()
		var ds []string
		for _, st := range fc.e.cs.Schema {
			if st.Code > 0 {
				ds = append(ds, fmt.Sprintf("(not (= %s %d))", k, st.Code))
			}
		}
		sortStrings(ds)
		if len(ds) > 0 {
			fc.assumeHere(implies(not(has), "(and "+strings.Join(ds, " ")+")"))
		}
	}
}

func (fc *FnCtx) mapUpdate(x *ssa.MapUpdate) {
	mt := x.Map.Type()
	ms := fc.mapSymbols(mt)
	m := fc.val(x.Map).S()
	key := fc.val(x.Key)
	v := fc.val(x.Value)
	hn := "MS." + typeName(mt)
	cur := fc.getHeapTerm(&fc.cur, hn, arrOf(SInt))
	st := fmt.Sprintf("(%s (select %s %s) %s %s)", mangle("mput."+ms.name), cur, m, strings.Join(key.C, " "), strings.Join(v.C, " "))
	fc.heapSet(&fc.cur, hn, arrOf(SInt), fmt.Sprintf("(store %s %s %s)", cur, m, st))
}

func (fc *FnCtx) mapDelete(c *ssa.CallCommon) {
	mt := c.Args[0].Type()
	ms := fc.mapSymbols(mt)
	m := fc.val(c.Args[0]).S()
	key := fc.val(c.Args[1])
	hn := "MS." + typeName(mt)
	cur := fc.getHeapTerm(&fc.cur, hn, arrOf(SInt))
	st := fmt.Sprintf("(%s (select %s %s) %s)", mangle("mdel."+ms.name), cur, m, strings.Join(key.C, " "))
	fc.heapSet(&fc.cur, hn, arrOf(SInt), fmt.Sprintf("(store %s %s %s)", cur, m, st))
}

func (fc *FnCtx) makeMap(x *ssa.MakeMap) {
	r := fc.allocRef(x.Name(), x.Type())
	fc.allocSite[x] = r.S()
	mt := x.Type()
	ms := fc.mapSymbols(mt)
	hn := "MS." + typeName(mt)
	cur := fc.getHeapTerm(&fc.cur, hn, arrOf(SInt))
	fc.assumeHere(fmt.Sprintf("(= (select %s %s) %s)", cur, r.S(), mangle("mempty."+ms.name)))
	fc.setVal(x, r)
}

// mapLen: the number of entries of the map (an uninterpreted function of its abstract state; zero for the empty map).
func (fc *FnCtx) mapLen(h *HeapState, mt types.Type, ref string) string {
	ms := fc.mapSymbols(mt)
	return fmt.Sprintf("(%s %s)", mangle("mlen."+ms.name), fc.mapState(h, mt, ref))
}

// mapClear: clear(m) leaves the empty map.
func (fc *FnCtx) mapClear(c *ssa.CallCommon) {
	mt := c.Args[0].Type()
	ms := fc.mapSymbols(mt)
	m := fc.val(c.Args[0]).S()
	hn := "MS." + typeName(mt)
	cur := fc.getHeapTerm(&fc.cur, hn, arrOf(SInt))
	fc.heapSet(&fc.cur, hn, arrOf(SInt), fmt.Sprintf("(store %s %s %s)", cur, m, mangle("mempty."+ms.name)))
}
