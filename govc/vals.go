package main

// Value model: every Go value is flattened into a list of SMT terms ("components").
//
//   integer / float(uninterpreted) / pointer / map / chan / func : [Int]
//   bool                                                       : [Bool]
//   string                                                     : [(Array Int Int) arr, Int off, Int len]
//   slice                                                      : [Int ref, Int off, Int len, Int cap]
//   interface                                                  : [Int typetag, Int payload]
//   struct (by value), tuple                                   : concatenation of the fields
//   array value [N]T                                           : [Int] (opaque; arrays are accessed through pointers)

import (
	"fmt"
	"go/types"
	"regexp"
	"strings"
)

const (
	SInt  = "Int"
	SBool = "Bool"
	SArr  = "(Array Int Int)"
)

type Kind int

const (
	KInt Kind = iota
	KBool
	KStr
	KSlice
	KPtr
	KIface
	KStruct
	KTuple
	KOpaque
)

type Val struct {
	K Kind
	T types.Type
	C []string // flattened components
}

func (v Val) S() string { // scalar term
	if len(v.C) != 1 {
		panic(fmt.Sprintf("S() on non-scalar value kind %d type %v (%d comps)", v.K, v.T, len(v.C)))
	}
	return v.C[0]
}

func kindOf(t types.Type) Kind {
	switch u := t.Underlying().(type) {
	case *types.Basic:
		switch {
		case u.Info()&types.IsBoolean != 0:
			return KBool
		case u.Info()&types.IsString != 0:
			return KStr
		case u.Kind() == types.UnsafePointer:
			return KPtr
		case u.Kind() == types.UntypedNil:
			return KPtr
		}
		return KInt
	case *types.Slice:
		return KSlice
	case *types.Pointer, *types.Map, *types.Chan, *types.Signature:
		return KPtr
	case *types.Interface:
		return KIface
	case *types.Struct:
		return KStruct
	case *types.Tuple:
		return KTuple
	case *types.Array:
		return KOpaque
	case *types.TypeParam:
		return KOpaque
	}
	return KOpaque
}

// sortsOf returns the flattened SMT sorts of a Go type.
func sortsOf(t types.Type) []string {
	switch kindOf(t) {
	case KBool:
		return []string{SBool}
	case KStr:
		return []string{SArr, SInt, SInt}
	case KSlice:
		return []string{SInt, SInt, SInt, SInt}
	case KIface:
		return []string{SInt, SInt}
	case KStruct:
		st := t.Underlying().(*types.Struct)
		var out []string
		for i := 0; i < st.NumFields(); i++ {
			out = append(out, sortsOf(st.Field(i).Type())...)
		}
		return out
	case KTuple:
		tu := t.Underlying().(*types.Tuple)
		var out []string
		for i := 0; i < tu.Len(); i++ {
			out = append(out, sortsOf(tu.At(i).Type())...)
		}
		return out
	}
	return []string{SInt}
}

// compNames gives a short suffix for each flattened component (for symbol names).
func compNames(t types.Type) []string {
	switch kindOf(t) {
	case KStr:
		return []string{"arr", "off", "len"}
	case KSlice:
		return []string{"ref", "off", "len", "cap"}
	case KIface:
		return []string{"tag", "val"}
	case KStruct:
		st := t.Underlying().(*types.Struct)
		var out []string
		for i := 0; i < st.NumFields(); i++ {
			for _, c := range compNames(st.Field(i).Type()) {
				out = append(out, st.Field(i).Name()+"_"+c)
			}
		}
		return out
	case KTuple:
		tu := t.Underlying().(*types.Tuple)
		var out []string
		for i := 0; i < tu.Len(); i++ {
			for _, c := range compNames(tu.At(i).Type()) {
				out = append(out, fmt.Sprintf("%d_%s", i, c))
			}
		}
		return out
	}
	return []string{"v"}
}

// fieldRange returns the component range [lo,hi) of field i inside the flattened struct/tuple.
func fieldRange(t types.Type, idx int) (int, int, types.Type) {
	lo := 0
	switch u := t.Underlying().(type) {
	case *types.Struct:
		for i := 0; i < u.NumFields(); i++ {
			n := len(sortsOf(u.Field(i).Type()))
			if i == idx {
				return lo, lo + n, u.Field(i).Type()
			}
			lo += n
		}
	case *types.Tuple:
		for i := 0; i < u.Len(); i++ {
			n := len(sortsOf(u.At(i).Type()))
			if i == idx {
				return lo, lo + n, u.At(i).Type()
			}
			lo += n
		}
	}
	panic("fieldRange: bad index")
}

func mkVal(t types.Type, comps []string) Val {
	return Val{K: kindOf(t), T: t, C: comps}
}

// intRange returns (lo, hi, ok) bounds of an integer type as decimal strings (inclusive).
func intBits(t types.Type) (bits int, signed bool, ok bool) {
	b, isb := t.Underlying().(*types.Basic)
	if !isb {
		return 0, false, false
	}
	switch b.Kind() {
	case types.Int8:
		return 8, true, true
	case types.Int16:
		return 16, true, true
	case types.Int32:
		return 32, true, true
	case types.Int, types.Int64, types.UntypedInt, types.UntypedRune:
		return 64, true, true
	case types.Uint8:
		return 8, false, true
	case types.Uint16:
		return 16, false, true
	case types.Uint32:
		return 32, false, true
	case types.Uint, types.Uint64, types.Uintptr:
		return 64, false, true
	}
	return 0, false, false
}

func pow2s(n int) string {
	// decimal string of 2^n
	d := []int{1}
	for i := 0; i < n; i++ {
		carry := 0
		for j := range d {
			v := d[j]*2 + carry
			d[j] = v % 10
			carry = v / 10
		}
		if carry > 0 {
			d = append(d, carry)
		}
	}
	var sb strings.Builder
	for i := len(d) - 1; i >= 0; i-- {
		sb.WriteByte(byte('0' + d[i]))
	}
	return sb.String()
}

// rangeAssume returns an SMT formula constraining term x to the value range of integer type t ("" if none).
func rangeAssume(t types.Type, x string) string {
	bits, signed, ok := intBits(t)
	if !ok {
		return ""
	}
	if signed {
		return fmt.Sprintf("(and (<= (- %s) %s) (< %s %s))", pow2s(bits-1), x, x, pow2s(bits-1))
	}
	return fmt.Sprintf("(and (<= 0 %s) (< %s %s))", x, x, pow2s(bits))
}

// wrap applies the machine wrap-around of type t to a mathematical term.
// Signed 64-bit arithmetic is treated as mathematical (reported assumption).
func wrap(t types.Type, x string) string {
	bits, signed, ok := intBits(t)
	if !ok {
		return x
	}
	if !signed {
		return fmt.Sprintf("(mod %s %s)", x, pow2s(bits))
	}
	if bits == 64 {
		return x
	}
	h := pow2s(bits - 1)
	return fmt.Sprintf("(- (mod (+ %s %s) %s) %s)", x, h, pow2s(bits), h)
}

func mangle(s string) string {
	var sb strings.Builder
	for _, r := range s {
		switch {
		case r >= 'a' && r <= 'z', r >= 'A' && r <= 'Z', r >= '0' && r <= '9', r == '_', r == '.':
			sb.WriteRune(r)
		case r == '*':
			sb.WriteString("P")
		case r == '/':
			sb.WriteString(".")
		case r == '[':
			sb.WriteString("L")
		case r == ']':
			sb.WriteString("J")
		default:
			sb.WriteString("_")
		}
	}
	return sb.String()
}

func typeName(t types.Type) string {
	s := types.TypeString(t, func(p *types.Package) string {
		if p.Path() == "github.com/miekg/dns" {
			return ""
		}
		return p.Name()
	})
	s = byteRe.ReplaceAllString(s, "uint8")
	s = runeRe.ReplaceAllString(s, "int32")
	return mangle(s)
}

var byteRe = regexp.MustCompile(`\bbyte\b`)
var runeRe = regexp.MustCompile(`\brune\b`)

func and(xs ...string) string {
	var ys []string
	for _, x := range xs {
		if x == "" || x == "true" {
			continue
		}
		ys = append(ys, x)
	}
	switch len(ys) {
	case 0:
		return "true"
	case 1:
		return ys[0]
	}
	return "(and " + strings.Join(ys, " ") + ")"
}

func or(xs ...string) string {
	var ys []string
	for _, x := range xs {
		if x == "" || x == "false" {
			continue
		}
		if x == "true" {
			return "true"
		}
		ys = append(ys, x)
	}
	switch len(ys) {
	case 0:
		return "false"
	case 1:
		return ys[0]
	}
	return "(or " + strings.Join(ys, " ") + ")"
}

func not(x string) string {
	if x == "true" {
		return "false"
	}
	if x == "false" {
		return "true"
	}
	return "(not " + x + ")"
}

func implies(a, b string) string {
	if a == "true" {
		return b
	}
	return "(=> " + a + " " + b + ")"
}

func ite(c, a, b string) string { return "(ite " + c + " " + a + " " + b + ")" }

func intLit(n int64) string {
	if n < 0 {
		return fmt.Sprintf("(- %d)", -n)
	}
	return fmt.Sprintf("%d", n)
}
