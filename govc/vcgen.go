package main

import (
	"fmt"
	"go/constant"
	"go/token"
	"go/types"
	"sort"
	"strings"

	"golang.org/x/tools/go/ssa"
)

// HeapState maps heap array names to their current SMT version.
type HeapState struct {
	m     map[string]string
	epoch int
}

func (h HeapState) clone() HeapState {
	n := HeapState{m: make(map[string]string, len(h.m)), epoch: h.epoch}
	for k, v := range h.m {
		n.m[k] = v
	}
	return n
}

type Obligation struct {
	Fn     string
	Name   string
	Kind   string
	Cond   string // formula that must hold (under Guard)
	Guard  string
	Prefix int // number of assertions visible
	Pos    token.Pos
	Tags   []string
	Src    string
	Expect string // "" normal, "sat" canary
	// results
	Status  string // proved | failed | unknown | trivial
	Solver  string
	Time    float64
	Model   string
	Output  string
	Clause  *Clause
	Replayed bool
	Strategy string
	Block   *ssa.BasicBlock
	Cases   []string // incoming edge conditions of the obligation's block (for case splitting)
	fc      *FnCtx
}

type FnCtx struct {
	keepSliceOffsets bool // ... or about where its slice result lies (sliceoff)
	keepStrOffsets bool // the contract of the call being translated speaks about where its string result lies
	e        *Engine
	fn       *ssa.Function
	name     string
	con      *Contract
	decls    []string
	declared map[string]bool
	asserts  []string
	obls     []*Obligation
	vals     map[ssa.Value]Val
	reach    map[*ssa.BasicBlock]string
	exit     map[*ssa.BasicBlock]HeapState
	heapSort map[string]string
	entry    HeapState
	cur      HeapState
	curBlock *ssa.BasicBlock
	curReach string // reach condition at the current point (block reach plus in-block refinements)
	loops    []*Loop
	loopAt   map[*ssa.BasicBlock]*Loop
	nfresh   int
	occ      map[string]int
	unsupported []string
	touched  map[string]bool
	allocs   []string // allocation constants, pairwise distinct
	varRefs  map[string][]varRef
	defers   []*ssa.Defer
	specsUsed map[string]bool
	inputs   []string // names of input symbols (for model extraction)
	swept    bool     // only panic obligations (no contract)
	loopHeadEnv map[*ssa.BasicBlock]HeapState
	lstates  map[*Loop]*loopState
	helpers  map[string]bool
	globals  []string
	globalSeen map[string]bool
	anchorsDone map[string]bool
	ghosts   map[string]Val
	inQuant  int
	callSiteSeen map[string]bool
	tracked  map[string]bool
	crType   map[string]types.Type
	subSeen  map[string]bool
	localSubs map[string][]string
	evalDepth int
	curCall   *ssa.CallCommon
	exitBound map[int]bool
	ghostAt  map[string]*ssa.BasicBlock
	usedCons map[string]bool // module functions whose contracts were applied at call sites
	uncontracted map[string]bool
	externs  map[string]bool
	curIdx   int
	exitReach map[*ssa.BasicBlock]string
	rspecs   map[string]*renderedSpec
	lemmaAsserts []lemmaAssert
	specDF   []string
	esc      *escInfo
	existing []existingRef
	lemmasUsed []string
	cmpStrings []Val
	calleeContracts map[string]bool
	streqSeen map[string]bool
	allowLocals bool
	assertBlk []*ssa.BasicBlock
	assertOb  map[int]*Obligation // asserts[i] is the assumption "obligation held" of this obligation
	anc map[*ssa.BasicBlock]map[*ssa.BasicBlock]bool
	curEdges []string
	familyOf map[ssa.Value]*family
	allocSite map[ssa.Value]string
	specAX   []string
}

func (fc *FnCtx) assertGlobal(f string) {
	if f == "true" || f == "" {
		return
	}
	if fc.globalSeen == nil {
		fc.globalSeen = map[string]bool{}
	}
	if fc.globalSeen[f] {
		return
	}
	fc.globalSeen[f] = true
	fc.globals = append(fc.globals, f)
}

// unboundAnchors lists anchored clauses whose anchor text was not found in the function (the contract no
// longer binds to the code).
func (fc *FnCtx) unboundAnchors() []string {
	var out []string
	if fc.con == nil || fc.fn == nil {
		return nil
	}
	var lines []string
	for _, b := range fc.fn.Blocks {
		for _, in := range b.Instrs {
			p := in.Pos()
			if d, ok := in.(*ssa.DebugRef); ok {
				p = d.Expr.Pos()
			}
			if p.IsValid() {
				lines = append(lines, fc.e.srcLine(p))
			}
		}
	}
	has := func(anchor string) bool {
		text, nth := splitAnchor(anchor)
		if nth > 0 {
			return nth <= len(fc.anchorLines(text))
		}
		for _, l := range lines {
			if strings.Contains(l, text) {
				return true
			}
		}
		return false
	}
	for i, a := range fc.con.Asserts {
		// the anchor text must occur, and the clause must have been evaluated there (it is not when a name it
		// mentions is defined nowhere on the anchored line)
		if !a.Optional && (!has(a.Anchor) || !fc.anchorsDone[fmt.Sprintf("assertok:%d", i)]) {
			out = append(out, a.Anchor)
		}
	}
	for _, a := range fc.con.Stored {
		if !has(a.Anchor) || !fc.anchorsDone["storedok:"+a.Anchor] {
			out = append(out, a.Anchor)
		}
	}
	for _, a := range fc.con.CallSites {
		if !fc.callSiteSeen[a.Anchor] {
			out = append(out, "call to "+a.Anchor)
		}
	}
	return out
}

func (fc *FnCtx) finalize() {
	if fc.con != nil && fc.fn != nil {
		// an exit clause that mentions names defined at no return of the function no longer speaks about the code
		for i := range fc.con.Exits {
			if fc.exitBound[i] {
				continue
			}
			cl := &fc.con.Exits[i]
			ob := &Obligation{Fn: fc.name, Name: fc.name + "#exit." + cl.Label + ".unbound", Kind: "anchor", Cond: "false", Guard: "true", fc: fc, Clause: cl,
				Status: "failed", Solver: "contract binding", Src: "exit clause binds at no return (a local it mentions does not exist): " + cl.Src, Pos: fc.fn.Pos()}
			fc.obls = append(fc.obls, ob)
		}
	}
	for _, a := range fc.unboundAnchors() {
		// an anchored clause that no longer finds its source line is a failed obligation, not a silent pass
		ob := &Obligation{Fn: fc.name, Name: fc.name + "#anchor." + mangle(a), Kind: "anchor", Cond: "false", Guard: "true", fc: fc,
			Status: "failed", Solver: "contract binding", Src: "anchored clause does not bind: no source line of the function contains " + fmt.Sprintf("%q", a)}
		fc.obls = append(fc.obls, ob)
	}
	// everything that queries need is computed here, single-threaded (queries are rendered concurrently)
	for _, ob := range fc.obls {
		if ob.Block != nil {
			fc.ancestors(ob.Block)
		}
	}
	fc.renderSpecs()
}

type varRef struct {
	block *ssa.BasicBlock
	idx   int
	v     ssa.Value
	addr  bool
	obj   types.Object
}

func (fc *FnCtx) fresh(prefix, sort string) string {
	fc.nfresh++
	n := fmt.Sprintf("%s!%d", mangle(prefix), fc.nfresh)
	fc.declare(n, sort)
	return n
}

func (fc *FnCtx) declare(name, sort string) {
	if fc.declared[name] {
		return
	}
	fc.declared[name] = true
	fc.decls = append(fc.decls, fmt.Sprintf("(declare-fun %s () %s)", name, sort))
}

func (fc *FnCtx) declareFun(name, sig string) {
	if fc.declared[name] {
		return
	}
	fc.declared[name] = true
	fc.decls = append(fc.decls, fmt.Sprintf("(declare-fun %s %s)", name, sig))
}

func (fc *FnCtx) assert(f string) {
	if f == "true" || f == "" {
		return
	}
	fc.asserts = append(fc.asserts, f)
	fc.assertBlk = append(fc.assertBlk, fc.curBlock)
}

// assumeHere adds an assumption valid when control is at the current point.
func (fc *FnCtx) assumeHere(f string) {
	if f == "true" || f == "" {
		return
	}
	fc.assert(implies(fc.curReach, f))
}

func (fc *FnCtx) unsup(format string, a ...interface{}) {
	fc.unsupported = append(fc.unsupported, fmt.Sprintf(format, a...))
}

var panicKinds = map[string]bool{"bounds": true, "nil": true, "div": true, "tassert": true, "unreach": true, "shift": true, "alloc": true, "mapinv": true}

func (fc *FnCtx) oblige(kind, label, cond string, pos token.Pos, cl *Clause) *Obligation {
	if (panicKinds[kind] || kind == "pre") && fc.con != nil && fc.con.Opts["no-safety"] != "" {
		// absence of panics is not claimed for this function here (it is assumed): only the frame /
		// postcondition obligations are generated
		fc.assert(implies(fc.curReach, cond))
		return &Obligation{Fn: fc.name, Name: fc.name + "#" + kind, Kind: kind, Status: "skipped", fc: fc}
	}
	base := fc.name + "#" + kind
	if label != "" {
		base += "." + label
	}
	fc.occ[base]++
	name := base
	if n := fc.occ[base]; n > 1 {
		name = fmt.Sprintf("%s~%d", base, n)
	}
	ob := &Obligation{Fn: fc.name, Name: name, Kind: kind, Cond: cond, Guard: fc.curReach, Prefix: len(fc.asserts), Pos: pos, fc: fc, Clause: cl, Cases: fc.curEdges, Block: fc.curBlock}
	if cl != nil {
		ob.Tags = cl.Tags
		ob.Src = cl.Src
	} else if pos.IsValid() {
		ob.Src = strings.TrimSpace(fc.e.srcLine(pos))
	}
	fc.obls = append(fc.obls, ob)
	// later obligations may assume this one held (execution would have stopped otherwise)
	if f := implies(fc.curReach, cond); f != "true" && f != "" {
		if fc.assertOb == nil {
			fc.assertOb = map[int]*Obligation{}
		}
		fc.assertOb[len(fc.asserts)] = ob
		fc.assert(f)
	}
	// the assumption is appended after Prefix was taken, so it is not visible to the obligation itself
	return ob
}

// ---------------------------------------------------------------------------
// heap access

func (fc *FnCtx) heapGet(h *HeapState, name, sort string) string {
	if v, ok := h.m[name]; ok {
		return v
	}
	fc.heapSort[name] = sort
	fc.touched[name] = true
	n := fmt.Sprintf("%s@%d", mangle(name), h.epoch)
	fc.declare(n, sort)
	return n
}

func (fc *FnCtx) heapSet(h *HeapState, name, sort, term string) {
	fc.heapSort[name] = sort
	fc.touched[name] = true
	// name the new version to keep terms small
	n := fc.fresh(name, sort)
	fc.assert(fmt.Sprintf("(= %s %s)", n, term))
	h.m[name] = n
}

func (fc *FnCtx) havocHeap(h *HeapState, name string) {
	sort, ok := fc.heapSort[name]
	if !ok {
		return
	}
	h.m[name] = fc.fresh(name, sort)
}

func (fc *FnCtx) havocAll(h *HeapState) {
	fc.e.nextEpoch++
	keep := map[string]string{}
	for k, v := range h.m {
		if strings.HasPrefix(k, "$") {
			keep[k] = v // bookkeeping cells of the verifier (call results/flags) are no program memory
		}
	}
	h.m = keep
	h.epoch = fc.e.nextEpoch
}

func (fc *FnCtx) havocSet(h *HeapState, mods map[string]bool) {
	if mods["*"] {
		fc.havocAll(h)
		return
	}
	for name := range mods {
		if _, ok := fc.heapSort[name]; !ok {
			// not yet used: register its sort lazily when first used; mark by giving it a fresh epoch-like version
			h.m[name] = "" // placeholder resolved in heapGetLazy
			continue
		}
		fc.havocHeap(h, name)
	}
}

func arrOf(sort string) string { return "(Array Int " + sort + ")" }

// Loc is a memory location holding a value of type T.
type Loc struct {
	T    types.Type
	kind string // field | elem | cell
	heap string // name prefix (without component suffix)
	ref  string
	idx  string // elem only
}

func (fc *FnCtx) getHeapTerm(h *HeapState, name, sort string) string {
	if v, ok := h.m[name]; ok && v == "" {
		// havocked before first use
		fc.heapSort[name] = sort
		h.m[name] = fc.fresh(name, sort)
		return h.m[name]
	}
	return fc.heapGet(h, name, sort)
}

// loadLoc reads the value at loc from heap state h.
func (fc *FnCtx) loadLoc(h *HeapState, l Loc) Val {
	t := l.T
	if st, ok := t.Underlying().(*types.Struct); ok {
		// object: ref designates the struct
		var comps []string
		for i := 0; i < st.NumFields(); i++ {
			comps = append(comps, fc.loadLoc(h, fc.fieldLoc(l.objRef(fc), t, i)).C...)
		}
		return mkVal(t, comps)
	}
	sorts := sortsOf(t)
	names := compNames(t)
	comps := make([]string, len(sorts))
	for i := range sorts {
		switch l.kind {
		case "field", "cell":
			hn := l.heap + "." + names[i]
			comps[i] = fmt.Sprintf("(select %s %s)", fc.getHeapTerm(h, hn, arrOf(sorts[i])), l.ref)
		case "elem":
			hn := l.heap + "." + names[i]
			comps[i] = fmt.Sprintf("(select (select %s %s) %s)", fc.getHeapTerm(h, hn, arrOf(arrOf(sorts[i]))), l.ref, l.idx)
		}
	}
	v := mkVal(t, comps)
	return v
}

func (l Loc) objRef(fc *FnCtx) string {
	switch l.kind {
	case "elem":
		fn := "elem." + typeName(l.T)
		fc.declareFun(mangle(fn), "(Int Int) Int")
		return fmt.Sprintf("(%s %s %s)", mangle(fn), l.ref, l.idx)
	}
	return l.ref
}

// fieldLoc gives the location of field i of the struct object at ref.
func (fc *FnCtx) fieldLoc(ref string, st types.Type, i int) Loc {
	h, ft := structFieldHeap(st, i)
	if _, ok := ft.Underlying().(*types.Struct); ok {
		return Loc{T: ft, kind: "cell", ref: fc.subRef(st, i, ref)}
	}
	if at, ok := ft.Underlying().(*types.Array); ok {
		_ = at
		return Loc{T: ft, kind: "cell", heap: h, ref: ref}
	}
	return Loc{T: ft, kind: "field", heap: h, ref: ref}
}

func (fc *FnCtx) subRef(st types.Type, i int, ref string) string {
	s := st.Underlying().(*types.Struct)
	f := s.Field(i)
	if i == 0 {
		// the first field of a struct has the address of the struct itself
		return ref
	}
	fn := mangle("sub." + typeName(st) + "." + f.Name())
	fc.declareFun(fn, "(Int) Int")
	term := fmt.Sprintf("(%s %s)", fn, ref)
	if !fc.subSeen[term] && fc.inQuant == 0 {
		if fc.subSeen == nil {
			fc.subSeen = map[string]bool{}
		}
		fc.subSeen[term] = true
		// a part of an object is as old as the object; parts of this function's own allocations are remembered
		// so that addresses found in the heap can be told apart from them while the allocation is private
		fc.declare("allocBase", SInt)
		fc.assertGlobal(fmt.Sprintf("(=> (not (= %s 0)) (and (not (= %s 0)) (= (>= %s allocBase) (>= %s allocBase))))", ref, term, term, ref))
		if fc.isAllocConst(ref) {
			if fc.localSubs == nil {
				fc.localSubs = map[string][]string{}
			}
			fc.localSubs[ref] = append(fc.localSubs[ref], term)
			// a field inside one of this function's allocations is not the address of another of its allocations
			for _, o := range fc.allocs {
				if o != ref {
					fc.assertGlobal(fmt.Sprintf("(not (= %s %s))", term, o))
				}
			}
		}
	}
	return term
}

func (fc *FnCtx) storeLoc(h *HeapState, l Loc, v Val) {
	t := l.T
	if st, ok := t.Underlying().(*types.Struct); ok {
		for i := 0; i < st.NumFields(); i++ {
			lo, hi, ft := fieldRange(t, i)
			fc.storeLoc(h, fc.fieldLoc(l.objRef(fc), t, i), mkVal(ft, v.C[lo:hi]))
		}
		return
	}
	sorts := sortsOf(t)
	names := compNames(t)
	for i := range sorts {
		hn := l.heap + "." + names[i]
		switch l.kind {
		case "field", "cell":
			cur := fc.getHeapTerm(h, hn, arrOf(sorts[i]))
			fc.heapSet(h, hn, arrOf(sorts[i]), fmt.Sprintf("(store %s %s %s)", cur, l.ref, v.C[i]))
		case "elem":
			cur := fc.getHeapTerm(h, hn, arrOf(arrOf(sorts[i])))
			fc.heapSet(h, hn, arrOf(arrOf(sorts[i])), fmt.Sprintf("(store %s %s (store (select %s %s) %s %s))", cur, l.ref, cur, l.ref, l.idx, v.C[i]))
		}
	}
}

// cellLoc: location designated by a first-class pointer value.
func (fc *FnCtx) cellLoc(ptrT types.Type, ref string) Loc {
	t := derefType(ptrT)
	return Loc{T: t, kind: "cell", heap: "M." + typeName(t), ref: ref}
}

// elemInfo returns element type, array ref, base offset, and length of an indexable value.
func (fc *FnCtx) locOf(a ssa.Value) Loc {
	switch x := a.(type) {
	case *ssa.FieldAddr:
		st := derefType(x.X.Type())
		base := fc.val(x.X).S()
		return fc.fieldLoc(base, st, x.Field)
	case *ssa.IndexAddr:
		xv := fc.val(x.X)
		iv := fc.val(x.Index).S()
		switch u := x.X.Type().Underlying().(type) {
		case *types.Slice:
			return Loc{T: u.Elem(), kind: "elem", heap: "A." + typeName(u.Elem()), ref: xv.C[0], idx: fmt.Sprintf("(+ %s %s)", xv.C[1], iv)}
		case *types.Pointer:
			et := u.Elem().Underlying().(*types.Array).Elem()
			return Loc{T: et, kind: "elem", heap: "A." + typeName(et), ref: xv.C[0], idx: iv}
		}
	}
	return fc.cellLoc(a.Type(), fc.val(a).S())
}

// ---------------------------------------------------------------------------
// values

func (fc *FnCtx) typeInv(v Val) string {
	switch v.K {
	case KInt:
		return rangeAssume(v.T, v.C[0])
	case KStr:
		return fmt.Sprintf("(and (<= 0 %s) (<= 0 %s) (<= %s %s))", v.C[1], v.C[2], v.C[2], maxLen)
	case KSlice:
		return fmt.Sprintf("(and (<= 0 %s) (<= 0 %s) (<= 0 %s) (<= %s %s) (<= %s %s) (=> (= %s 0) (= %s 0)))",
			v.C[0], v.C[1], v.C[2], v.C[2], v.C[3], v.C[3], maxLen, v.C[0], v.C[3])
	case KPtr:
		return fmt.Sprintf("(<= 0 %s)", v.C[0])
	case KIface:
		return fmt.Sprintf("(and (<= 0 %s) (=> (= %s 0) (= %s 0)))", v.C[0], v.C[0], v.C[1])
	case KStruct, KTuple:
		var parts []string
		n := 0
		switch u := v.T.Underlying().(type) {
		case *types.Struct:
			n = u.NumFields()
		case *types.Tuple:
			n = u.Len()
		}
		for i := 0; i < n; i++ {
			lo, hi, ft := fieldRange(v.T, i)
			parts = append(parts, fc.typeInv(mkVal(ft, v.C[lo:hi])))
		}
		return and(parts...)
	}
	return "true"
}

const maxLen = "1125899906842624" // 2^50: global machine assumption on every length

func (fc *FnCtx) freshVal(prefix string, t types.Type) Val {
	sorts := sortsOf(t)
	names := compNames(t)
	comps := make([]string, len(sorts))
	for i := range sorts {
		p := prefix
		if len(sorts) > 1 {
			p = prefix + "." + names[i]
		}
		comps[i] = fc.fresh(p, sorts[i])
	}
	// Representation normalisation: an unknown string is represented at offset 0 of its array (without loss
	// of generality: strings are immutable values); an unknown slice is taken to start at offset 0 of its
	// backing array (assumption: distinct unknown slices do not overlap at different offsets).
	normaliseOffsets(t, comps)
	v := mkVal(t, comps)
	fc.assert(fc.typeInv(v))
	return v
}

// mergeVal is a fresh value that is about to be equated with known values (the result of a phi): its offsets
// are NOT normalised - equating a literal offset 0 with the offset of `b[4:]` would make the path infeasible and
// every obligation behind it vacuously true.
func (fc *FnCtx) mergeVal(prefix string, t types.Type) Val {
	sorts := sortsOf(t)
	names := compNames(t)
	comps := make([]string, len(sorts))
	for i := range sorts {
		p := prefix
		if len(sorts) > 1 {
			p = prefix + "." + names[i]
		}
		comps[i] = fc.fresh(p, sorts[i])
	}
	v := mkVal(t, comps)
	fc.assert(fc.typeInv(v))
	return v
}

func zeroComps(t types.Type) []string {
	switch kindOf(t) {
	case KBool:
		return []string{"false"}
	case KStr:
		return []string{"zeroarr", "0", "0"}
	case KSlice:
		return []string{"0", "0", "0", "0"}
	case KIface:
		return []string{"0", "0"}
	case KStruct:
		st := t.Underlying().(*types.Struct)
		var out []string
		for i := 0; i < st.NumFields(); i++ {
			out = append(out, zeroComps(st.Field(i).Type())...)
		}
		return out
	case KTuple:
		tu := t.Underlying().(*types.Tuple)
		var out []string
		for i := 0; i < tu.Len(); i++ {
			out = append(out, zeroComps(tu.At(i).Type())...)
		}
		return out
	}
	return []string{"0"}
}

func (fc *FnCtx) constStr(s string) Val {
	// constant string: a named array with its bytes asserted
	key := fmt.Sprintf("str.%d.%x", len(s), hashStr(s))
	name := mangle(key)
	if !fc.declared[name] {
		fc.declare(name, SArr)
		if len(s) <= 1200 {
			var parts []string
			for i := 0; i < len(s); i++ {
				parts = append(parts, fmt.Sprintf("(= (select %s %d) %d)", name, i, s[i]))
			}
			fc.assertGlobal(and(parts...))
		}
	}
	return Val{K: KStr, T: types.Typ[types.String], C: []string{name, "0", fmt.Sprint(len(s))}}
}

func hashStr(s string) uint64 {
	var h uint64 = 1469598103934665603
	for i := 0; i < len(s); i++ {
		h ^= uint64(s[i])
		h *= 1099511628211
	}
	return h
}

func (fc *FnCtx) constVal(c *ssa.Const) Val {
	t := c.Type()
	if c.Value == nil {
		return mkVal(t, zeroComps(t))
	}
	switch kindOf(t) {
	case KBool:
		if constant.BoolVal(c.Value) {
			return mkVal(t, []string{"true"})
		}
		return mkVal(t, []string{"false"})
	case KStr:
		v := fc.constStr(constant.StringVal(c.Value))
		v.T = t
		return v
	case KInt:
		if c.Value.Kind() == constant.Int {
			s := c.Value.ExactString()
			if strings.HasPrefix(s, "-") {
				s = "(- " + s[1:] + ")"
			}
			return mkVal(t, []string{s})
		}
		// float constants: uninterpreted but deterministic
		name := mangle("fconst." + c.Value.ExactString())
		fc.declare(name, SInt)
		return mkVal(t, []string{name})
	}
	return mkVal(t, zeroComps(t))
}

func (fc *FnCtx) val(v ssa.Value) Val {
	if r, ok := fc.vals[v]; ok {
		return r
	}
	switch x := v.(type) {
	case *ssa.Const:
		return fc.constVal(x)
	case *ssa.Global:
		name := mangle("glob." + x.Pkg.Pkg.Name() + "." + x.Name())
		fc.declare(name, SInt)
		fc.assert(fmt.Sprintf("(< 0 %s)", name))
		r := mkVal(x.Type(), []string{name})
		fc.vals[v] = r
		return r
	case *ssa.Function:
		name := mangle("func." + fnName(x))
		fc.declare(name, SInt)
		fc.assert(fmt.Sprintf("(< 0 %s)", name))
		r := mkVal(x.Type(), []string{name})
		fc.vals[v] = r
		return r
	case *ssa.Builtin:
		return mkVal(x.Type(), []string{"0"})
	case *ssa.FreeVar:
		r := fc.freshVal("free."+x.Name(), x.Type())
		fc.vals[v] = r
		return r
	case *ssa.Parameter:
		r := fc.freshVal("in."+x.Name(), x.Type())
		fc.vals[v] = r
		return r
	}
	// value defined in a block not yet processed (should not happen with RPO) -> fresh
	fc.unsup("use of unprocessed value %s (%T)", v.Name(), v)
	r := fc.freshVal("undef."+v.Name(), v.Type())
	fc.vals[v] = r
	return r
}

func (fc *FnCtx) setVal(v ssa.Value, r Val) {
	// name scalar definitions to keep the formula DAG-shaped
	out := make([]string, len(r.C))
	sorts := sortsOf(v.Type())
	if len(sorts) != len(r.C) {
		panic(fmt.Sprintf("setVal %s: %d sorts vs %d comps (type %v)", v.Name(), len(sorts), len(r.C), v.Type()))
	}
	for i, c := range r.C {
		if len(c) < 24 {
			out[i] = c
			continue
		}
		n := fc.fresh(v.Name(), sorts[i])
		fc.assert(fmt.Sprintf("(= %s %s)", n, c))
		out[i] = n
	}
	fc.vals[v] = Val{K: r.K, T: v.Type(), C: out}
}

// ---------------------------------------------------------------------------

type vcError struct{ msg string }

func (e *Engine) newFnCtx(fn *ssa.Function, con *Contract) *FnCtx {
	nm := ""
	if fn != nil {
		nm = fnName(fn)
	}
	fc := &FnCtx{e: e, fn: fn, name: nm, con: con, declared: map[string]bool{}, vals: map[ssa.Value]Val{},
		reach: map[*ssa.BasicBlock]string{}, exit: map[*ssa.BasicBlock]HeapState{}, heapSort: map[string]string{},
		occ: map[string]int{}, touched: map[string]bool{}, varRefs: map[string][]varRef{}, specsUsed: map[string]bool{},
		loopHeadEnv: map[*ssa.BasicBlock]HeapState{}, allocSite: map[ssa.Value]string{}, exitReach: map[*ssa.BasicBlock]string{}}
	return fc
}

func rpo(fn *ssa.Function) []*ssa.BasicBlock {
	seen := map[*ssa.BasicBlock]bool{}
	var post []*ssa.BasicBlock
	var dfs func(b *ssa.BasicBlock)
	dfs = func(b *ssa.BasicBlock) {
		seen[b] = true
		for _, s := range b.Succs {
			if !seen[s] {
				dfs(s)
			}
		}
		post = append(post, b)
	}
	dfs(fn.Blocks[0])
	for i, j := 0, len(post)-1; i < j; i, j = i+1, j-1 {
		post[i], post[j] = post[j], post[i]
	}
	return post
}

// generate builds all obligations of the function.
func (fc *FnCtx) generate() (err error) {
	defer func() {
		if r := recover(); r != nil {
			if ve, ok := r.(vcError); ok {
				err = fmt.Errorf("%s", ve.msg)
				return
			}
			panic(r)
		}
	}()
	fn := fc.fn
	if len(fn.Blocks) == 0 {
		return fmt.Errorf("function %s has no body", fc.name)
	}
	loops, loopAt, lerr := findLoops(fn)
	if lerr != nil {
		return lerr
	}
	fc.loops, fc.loopAt = loops, loopAt
	fc.declare("zeroarr", SArr)
	fc.assertGlobal("(= zeroarr ((as const (Array Int Int)) 0))")
	fc.collectVarRefs()
	fc.findFamilies()
	fc.entry = HeapState{m: map[string]string{}, epoch: 0}
	fc.crType = map[string]types.Type{}
	fc.initCallFlags()
	fc.cur = fc.entry.clone()
	fc.curReach = "true"
	// parameters
	fc.declare("allocBase", SInt)
	fc.assertGlobal("(< 0 allocBase)")
	for _, p := range fn.Params {
		v := fc.val(p)
		fc.inputs = append(fc.inputs, v.C...)
		fc.assertGlobal(fc.oldRefs(v))
		fc.recordExisting(v)
	}
	for _, p := range fn.FreeVars {
		fc.val(p)
	}
	if fn.Signature.Recv() != nil && len(fn.Params) > 0 {
		if _, ok := fn.Params[0].Type().Underlying().(*types.Pointer); ok {
			fc.assert(fmt.Sprintf("(< 0 %s)", fc.val(fn.Params[0]).S()))
			fc.e.assume("pointer receivers are non-nil")
		}
	}
	fc.useLemmas()
	// preconditions
	if fc.con != nil {
		env := fc.entryEnv()
		for i := range fc.con.Requires {
			cl := &fc.con.Requires[i]
			f := fc.evalBool(cl.E, env)
			fc.assert(f)
		}
	}
	order := rpo(fn)
	pos := map[*ssa.BasicBlock]int{}
	for i, b := range order {
		pos[b] = i
	}
	for _, b := range order {
		fc.processBlock(b, pos)
	}
	return nil
}

func (fc *FnCtx) isBackEdge(from, to *ssa.BasicBlock) bool {
	return to.Dominates(from)
}

func (fc *FnCtx) edgeCond(from, to *ssa.BasicBlock, which int) string {
	r := fc.exitReach[from]
	if r == "" {
		r = "false"
	}
	if ifi, ok := from.Instrs[len(from.Instrs)-1].(*ssa.If); ok {
		c := fc.val(ifi.Cond).S()
		if from.Succs[0] == from.Succs[1] {
			return r
		}
		if which == 0 {
			return and(r, c)
		}
		return and(r, not(c))
	}
	return r
}

func succIndex(from, to *ssa.BasicBlock, nth int) int {
	// index in from.Succs of the nth occurrence of to
	k := 0
	for i, s := range from.Succs {
		if s == to {
			if k == nth {
				return i
			}
			k++
		}
	}
	return -1
}

func (fc *FnCtx) processBlock(b *ssa.BasicBlock, pos map[*ssa.BasicBlock]int) {
	fc.curBlock = b
	loop := fc.loopAt[b]
	// incoming edges
	type edge struct {
		from *ssa.BasicBlock
		cond string
		idx  int // index into b.Preds
		back bool
	}
	var edges []edge
	seenPred := map[*ssa.BasicBlock]int{}
	for i, p := range b.Preds {
		nth := seenPred[p]
		seenPred[p]++
		back := fc.isBackEdge(p, b)
		e := edge{from: p, idx: i, back: back}
		if !back {
			if _, done := fc.reach[p]; !done {
				// unreachable predecessor (not in RPO)
				continue
			}
			e.cond = fc.edgeCond(p, b, succIndex(p, b, nth))
		}
		edges = append(edges, e)
	}
	var fwd []edge
	for _, e := range edges {
		if !e.back {
			fwd = append(fwd, e)
		}
	}
	// reach
	if b.Index == 0 {
		fc.reach[b] = "true"
	} else {
		var cs []string
		for _, e := range fwd {
			cs = append(cs, e.cond)
		}
		r := fc.fresh(fmt.Sprintf("R%d", b.Index), SBool)
		fc.assert(fmt.Sprintf("(= %s %s)", r, or(cs...)))
		fc.reach[b] = r
	}
	fc.curReach = fc.reach[b]
	fc.curEdges = nil
	if len(fwd) > 1 && loop == nil {
		for _, e := range fwd {
			fc.curEdges = append(fc.curEdges, e.cond)
		}
	}
	// heap at entry: merge forward predecessors
	switch {
	case b.Index == 0:
		// fc.cur already entry
	case len(fwd) == 1:
		fc.cur = fc.exit[fwd[0].from].clone()
	case len(fwd) == 0:
		fc.cur = fc.entry.clone()
	default:
		fc.cur = fc.mergeHeaps(fwd[0].from, func(yield func(HeapState, string)) {
			for _, e := range fwd {
				yield(fc.exit[e.from], e.cond)
			}
		})
	}
	if loop != nil {
		fc.enterLoop(loop, b, func(yield func(from *ssa.BasicBlock, cond string, predIdx int)) {
			for _, e := range fwd {
				yield(e.from, e.cond, e.idx)
			}
		})
	} else {
		// ordinary phis
		for _, in := range b.Instrs {
			phi, ok := in.(*ssa.Phi)
			if !ok {
				break
			}
			pv := fc.mergeVal(phi.Name()+"."+phi.Comment, phi.Type())
			fc.recordExisting(pv)
			for _, e := range fwd {
				ev := fc.val(phi.Edges[e.idx])
				fc.assert(implies(e.cond, eqVals(pv, ev)))
			}
			fc.vals[phi] = pv
		}
	}
	for i, in := range b.Instrs {
		if _, ok := in.(*ssa.Phi); ok {
			continue
		}
		fc.curIdx = i
		fc.instr(in, i)
	}
	fc.exit[b] = fc.cur
	fc.exitReach[b] = fc.curReach
	// back edges leaving this block: check invariants of the target loop
	seenSucc := map[*ssa.BasicBlock]int{}
	for _, s := range b.Succs {
		nth := seenSucc[s]
		seenSucc[s]++
		if fc.isBackEdge(b, s) {
			l := fc.loopAt[s]
			cond := fc.edgeCond(b, s, succIndex(b, s, nth))
			predIdx := -1
			k := 0
			for i, p := range s.Preds {
				if p == b {
					if k == nth {
						predIdx = i
					}
					k++
				}
			}
			fc.closeLoop(l, b, cond, predIdx)
		}
	}
}

func eqVals(a, b Val) string {
	var parts []string
	for i := range a.C {
		if a.C[i] == b.C[i] {
			continue
		}
		parts = append(parts, fmt.Sprintf("(= %s %s)", a.C[i], b.C[i]))
	}
	return and(parts...)
}

func (fc *FnCtx) mergeHeaps(first *ssa.BasicBlock, iter func(yield func(HeapState, string))) HeapState {
	var states []HeapState
	var conds []string
	iter(func(h HeapState, c string) { states = append(states, h); conds = append(conds, c) })
	sameEpoch := true
	for _, s := range states {
		if s.epoch != states[0].epoch {
			sameEpoch = false
		}
	}
	out := HeapState{m: map[string]string{}, epoch: states[0].epoch}
	names := map[string]bool{}
	if sameEpoch {
		for _, s := range states {
			for n := range s.m {
				names[n] = true
			}
		}
	} else {
		fc.e.nextEpoch++
		out.epoch = fc.e.nextEpoch
		for n := range fc.touched {
			names[n] = true
		}
		for _, s := range states {
			for n := range s.m {
				names[n] = true
			}
		}
	}
	for _, n := range sortedKeys(names) {
		sort, ok := fc.heapSort[n]
		if !ok {
			// havocked-before-use placeholder everywhere
			out.m[n] = ""
			continue
		}
		same := true
		var terms []string
		for i := range states {
			t := fc.getHeapTerm(&states[i], n, sort)
			terms = append(terms, t)
			if t != terms[0] {
				same = false
			}
		}
		if same {
			out.m[n] = terms[0]
			continue
		}
		nv := fc.fresh(n, sort)
		for i := range states {
			fc.assert(implies(conds[i], fmt.Sprintf("(= %s %s)", nv, terms[i])))
		}
		out.m[n] = nv
	}
	return out
}

// ---------------------------------------------------------------------------
// variable references (for binding contract names to SSA values)

func (fc *FnCtx) collectVarRefs() {
	for _, b := range fc.fn.Blocks {
		for i, in := range b.Instrs {
			if d, ok := in.(*ssa.DebugRef); ok {
				if obj := d.Object(); obj != nil {
					fc.varRefs[obj.Name()] = append(fc.varRefs[obj.Name()], varRef{b, i, d.X, d.IsAddr, obj})
				}
			}
		}
	}
}

func (fc *FnCtx) sortedVarNames() []string {
	var out []string
	for k := range fc.varRefs {
		out = append(out, k)
	}
	sort.Strings(out)
	return out
}

// oldRefs: references held by input values denote objects allocated before the call.
func (fc *FnCtx) oldRefs(v Val) string {
	switch v.K {
	case KSlice, KPtr:
		if _, isFn := v.T.Underlying().(*types.Signature); isFn {
			return "true"
		}
		return fmt.Sprintf("(< %s allocBase)", v.C[0])
	case KIface:
		return "true" // payload may be a scalar
	case KStruct, KTuple:
		var parts []string
		n := 0
		switch u := v.T.Underlying().(type) {
		case *types.Struct:
			n = u.NumFields()
		case *types.Tuple:
			n = u.Len()
		}
		for i := 0; i < n; i++ {
			lo, hi, ft := fieldRange(v.T, i)
			parts = append(parts, fc.oldRefs(mkVal(ft, v.C[lo:hi])))
		}
		return and(parts...)
	}
	return "true"
}

func normaliseOffsets(t types.Type, comps []string) {
	switch kindOf(t) {
	case KStr, KSlice:
		comps[1] = "0"
	case KStruct:
		st := t.Underlying().(*types.Struct)
		for i := 0; i < st.NumFields(); i++ {
			lo, hi, ft := fieldRange(t, i)
			normaliseOffsets(ft, comps[lo:hi])
		}
	case KTuple:
		tu := t.Underlying().(*types.Tuple)
		for i := 0; i < tu.Len(); i++ {
			lo, hi, ft := fieldRange(t, i)
			normaliseOffsets(ft, comps[lo:hi])
		}
	}
}

// ancestors: blocks from which b is reachable in the loop-cut control-flow DAG (b included).  Assertions
// generated in other blocks cannot concern an execution that reaches b and are left out of b's queries
// (dropping hypotheses is always sound).
func (fc *FnCtx) ancestors(b *ssa.BasicBlock) map[*ssa.BasicBlock]bool {
	if fc.anc == nil {
		fc.anc = map[*ssa.BasicBlock]map[*ssa.BasicBlock]bool{}
	}
	if a, ok := fc.anc[b]; ok {
		return a
	}
	a := map[*ssa.BasicBlock]bool{}
	stack := []*ssa.BasicBlock{b}
	for len(stack) > 0 {
		x := stack[len(stack)-1]
		stack = stack[:len(stack)-1]
		if a[x] {
			continue
		}
		a[x] = true
		for _, p := range x.Preds {
			if fc.isBackEdge(p, x) {
				continue
			}
			stack = append(stack, p)
		}
	}
	fc.anc[b] = a
	return a
}
