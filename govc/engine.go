package main

import (
	"sync"
	"fmt"
	"go/constant"
	"go/token"
	"go/types"
	"os"
	"sort"
	"strings"

	"golang.org/x/tools/go/packages"
	"golang.org/x/tools/go/ssa"
	"golang.org/x/tools/go/ssa/ssautil"
)

const dnsPath = "github.com/miekg/dns"

type Engine struct {
	repo    string
	fset    *token.FileSet
	prog    *ssa.Program
	dns     *ssa.Package
	util    *ssa.Package
	funcs   map[string]*ssa.Function
	cs      *ContractSet
	modsets map[*ssa.Function]map[string]bool
	typeIDs map[string]int
	typeByID []types.Type
	srcLines map[string][]string
	warnings map[string]bool
	retainMu   sync.Mutex
	retainMemo map[*ssa.Parameter]bool
	retainBusy map[*ssa.Parameter]bool
	retainCycles int
	assumptions map[string]bool
	readsets map[*ssa.Function]map[string]string
	timeout int // seconds per query
	jobs    int
	workdir string
	verbose bool
	nextEpoch int
	hints map[string]string
	hdrChecked bool
	toolErrors []string
	conCache map[*ssa.Function]*Contract
	globalInit map[*ssa.Global]ssa.Value
	globalInitDone bool
	usesCtorTable bool
}

func fnName(fn *ssa.Function) string {
	if fn.Pkg != nil && fn.Pkg.Pkg.Path() == dnsPath {
		return fn.RelString(fn.Pkg.Pkg)
	}
	if fn.Pkg != nil && fn.Pkg.Pkg.Path() == dnsPath+"/dnsutil" {
		return "dnsutil." + fn.RelString(fn.Pkg.Pkg)
	}
	s := fn.String()
	return s
}

func loadEngine(repo string) (*Engine, error) {
	cfg := &packages.Config{
		Mode:       packages.LoadAllSyntax,
		Dir:        repo,
		BuildFlags: []string{"-tags=verif"},
		Env:        append(os.Environ(), "GOFLAGS=-mod=mod", "GOPROXY=off", "GOSUMDB=off", "GOTOOLCHAIN=local"),
	}
	pkgs, err := packages.Load(cfg, ".", "./dnsutil")
	if err != nil {
		return nil, err
	}
	nerr := 0
	packages.Visit(pkgs, nil, func(p *packages.Package) {
		for _, e := range p.Errors {
			if nerr < 10 {
				fmt.Fprintf(os.Stderr, "load error: %v\n", e)
			}
			nerr++
		}
	})
	if nerr > 0 {
		return nil, fmt.Errorf("%d errors loading %s (the tree does not type-check)", nerr, repo)
	}
	prog, spkgs := ssautil.AllPackages(pkgs, ssa.InstantiateGenerics|ssa.GlobalDebug)
	prog.Build()
	e := &Engine{repo: repo, fset: prog.Fset, prog: prog, funcs: map[string]*ssa.Function{},
		modsets: map[*ssa.Function]map[string]bool{}, typeIDs: map[string]int{}, typeByID: []types.Type{nil},
		srcLines: map[string][]string{}, warnings: map[string]bool{}, assumptions: map[string]bool{}}
	for _, sp := range spkgs {
		if sp == nil {
			continue
		}
		switch sp.Pkg.Path() {
		case dnsPath:
			e.dns = sp
		case dnsPath + "/dnsutil":
			e.util = sp
		}
	}
	if e.dns == nil {
		return nil, fmt.Errorf("package %s not found", dnsPath)
	}
	for fn := range ssautil.AllFunctions(prog) {
		if fn.Pkg == nil && fn.Origin() != nil && fn.Origin().Pkg != nil {
			// generic instantiation
			if p := fn.Origin().Pkg.Pkg.Path(); p == dnsPath {
				e.funcs[fn.RelString(fn.Origin().Pkg.Pkg)] = fn
			}
			continue
		}
		if fn.Pkg == nil {
			continue
		}
		if fn.Synthetic != "" && !strings.HasPrefix(fn.Synthetic, "package init") && !strings.Contains(fn.Synthetic, "instance") {
			continue
		}
		e.funcs[fnName(fn)] = fn
	}
	cs, err := loadContracts(repo)
	if err != nil {
		return nil, err
	}
	e.cs = cs
	theEngine = e
	return e, nil
}

func (e *Engine) typeTag(t types.Type) int {
	k := types.TypeString(t, nil)
	if id, ok := e.typeIDs[k]; ok {
		return id
	}
	id := len(e.typeByID)
	e.typeIDs[k] = id
	e.typeByID = append(e.typeByID, t)
	return id
}

func (e *Engine) warn(format string, a ...interface{}) {
	e.warnings[fmt.Sprintf(format, a...)] = true
}
func (e *Engine) assume(format string, a ...interface{}) {
	e.assumptions[fmt.Sprintf(format, a...)] = true
}

func (e *Engine) srcLine(pos token.Pos) string {
	if !pos.IsValid() {
		return ""
	}
	p := e.fset.Position(pos)
	ls, ok := e.srcLines[p.Filename]
	if !ok {
		b, err := os.ReadFile(p.Filename)
		if err == nil {
			ls = strings.Split(string(b), "\n")
		}
		e.srcLines[p.Filename] = ls
	}
	if p.Line-1 < len(ls) && p.Line >= 1 {
		return ls[p.Line-1]
	}
	return ""
}

// lookupConst resolves a package-level constant of package dns (or a qualified one).
func (e *Engine) lookupConst(name string) (constant.Value, types.Type, bool) {
	obj := e.dns.Pkg.Scope().Lookup(name)
	if c, ok := obj.(*types.Const); ok {
		return c.Val(), c.Type(), true
	}
	return nil, nil, false
}

func (e *Engine) lookupType(name string) types.Type {
	ptr := false
	if strings.HasPrefix(name, "*") {
		ptr = true
		name = name[1:]
	}
	obj := e.dns.Pkg.Scope().Lookup(name)
	tn, ok := obj.(*types.TypeName)
	if !ok {
		return nil
	}
	if ptr {
		return types.NewPointer(tn.Type())
	}
	return tn.Type()
}

// ---------------------------------------------------------------------------
// loops

type Loop struct {
	Head    *ssa.BasicBlock
	Body    map[*ssa.BasicBlock]bool
	Latches []*ssa.BasicBlock
	Ordinal int
	Pos     token.Pos
}

func blockPos(b *ssa.BasicBlock) token.Pos {
	best := token.NoPos
	for _, in := range b.Instrs {
		p := in.Pos()
		if d, ok := in.(*ssa.DebugRef); ok {
			p = d.Expr.Pos()
		}
		if p.IsValid() && (!best.IsValid() || p < best) {
			best = p
		}
	}
	return best
}

func findLoops(fn *ssa.Function) ([]*Loop, map[*ssa.BasicBlock]*Loop, error) {
	byHead := map[*ssa.BasicBlock]*Loop{}
	var loops []*Loop
	for _, b := range fn.Blocks {
		for _, s := range b.Succs {
			if s.Dominates(b) { // back edge b -> s
				l := byHead[s]
				if l == nil {
					l = &Loop{Head: s, Body: map[*ssa.BasicBlock]bool{s: true}}
					byHead[s] = l
					loops = append(loops, l)
				}
				l.Latches = append(l.Latches, b)
				// body: nodes reaching b without passing s
				stack := []*ssa.BasicBlock{b}
				for len(stack) > 0 {
					x := stack[len(stack)-1]
					stack = stack[:len(stack)-1]
					if l.Body[x] {
						continue
					}
					l.Body[x] = true
					stack = append(stack, x.Preds...)
				}
			}
		}
	}
	// reducibility: every retreating edge in a DFS must be a back edge as defined above.
	state := map[*ssa.BasicBlock]int{}
	var bad error
	var dfs func(b *ssa.BasicBlock)
	dfs = func(b *ssa.BasicBlock) {
		state[b] = 1
		for _, s := range b.Succs {
			switch state[s] {
			case 0:
				dfs(s)
			case 1:
				if !s.Dominates(b) {
					bad = fmt.Errorf("irreducible control flow in %s", fn.Name())
				}
			}
		}
		state[b] = 2
	}
	if len(fn.Blocks) > 0 {
		dfs(fn.Blocks[0])
	}
	if bad != nil {
		return nil, nil, bad
	}
	for _, l := range loops {
		// position: smallest source position in the loop body (the for/range statement header comes first)
		best := token.NoPos
		for b := range l.Body {
			p := blockPos(b)
			if p.IsValid() && (!best.IsValid() || p < best) {
				best = p
			}
		}
		l.Pos = best
	}
	sort.Slice(loops, func(i, j int) bool {
		if loops[i].Pos != loops[j].Pos {
			return loops[i].Pos < loops[j].Pos
		}
		return loops[i].Head.Index < loops[j].Head.Index
	})
	for i, l := range loops {
		l.Ordinal = i + 1
	}
	return loops, byHead, nil
}

// ---------------------------------------------------------------------------
// mod sets: which heap names may a function store to (syntactic over-approximation, transitive)

func heapNamesOfType(prefix string, t types.Type) []string {
	var out []string
	for _, c := range compNames(t) {
		out = append(out, prefix+"."+c)
	}
	return out
}

func structFieldHeap(st types.Type, idx int) (string, types.Type) {
	s := st.Underlying().(*types.Struct)
	f := s.Field(idx)
	return "H." + typeName(st) + "." + f.Name(), f.Type()
}

func derefType(t types.Type) types.Type {
	if p, ok := t.Underlying().(*types.Pointer); ok {
		return p.Elem()
	}
	return t
}

// storeHeaps returns the heap names a store of type T at address a may touch.
func storeHeaps(a ssa.Value, into map[string]bool) {
	switch x := a.(type) {
	case *ssa.FieldAddr:
		st := derefType(x.X.Type())
		h, ft := structFieldHeap(st, x.Field)
		addTypeHeaps(h, ft, into)
	case *ssa.IndexAddr:
		var et types.Type
		switch u := x.X.Type().Underlying().(type) {
		case *types.Slice:
			et = u.Elem()
		case *types.Pointer:
			et = u.Elem().Underlying().(*types.Array).Elem()
		}
		if et != nil {
			addTypeHeaps("A."+typeName(et), et, into)
		}
	default:
		t := derefType(a.Type())
		addTypeHeaps("M."+typeName(t), t, into)
	}
}

func addTypeHeaps(prefix string, t types.Type, into map[string]bool) {
	if st, ok := t.Underlying().(*types.Struct); ok {
		for i := 0; i < st.NumFields(); i++ {
			h, ft := structFieldHeap(t, i)
			addTypeHeaps(h, ft, into)
		}
		return
	}
	if _, ok := t.Underlying().(*types.Array); ok {
		et := t.Underlying().(*types.Array).Elem()
		addTypeHeaps("A."+typeName(et), et, into)
		return
	}
	for _, n := range heapNamesOfType(prefix, t) {
		into[n] = true
	}
}

func (e *Engine) localMods(fn *ssa.Function) (map[string]bool, []*ssa.Function, bool) {
	mods := map[string]bool{}
	var callees []*ssa.Function
	all := false
	for _, b := range fn.Blocks {
		for _, in := range b.Instrs {
			switch x := in.(type) {
			case *ssa.Store:
				// stores into objects allocated by this very call are invisible to the caller
				if !rootIsLocalAlloc(x.Addr, 0) {
					storeHeaps(x.Addr, mods)
				}
			case *ssa.MapUpdate:
				if !rootIsLocalAlloc(x.Map, 0) {
					mods["MS."+typeName(x.Map.Type())] = true
				}
			case ssa.CallInstruction:
				c := x.Common()
				if bi, isB := c.Value.(*ssa.Builtin); isB && bi.Name() == "delete" && len(c.Args) > 0 {
					if !rootIsLocalAlloc(c.Args[0], 0) {
						mods["MS."+typeName(c.Args[0].Type())] = true
					}
					continue
				}
				if c.IsInvoke() {
					if con := e.ifaceContract(c); con != nil && con.HasMod {
						// effects confined by the interface contract (every implementation is checked against it)
						var ps []*ssa.Parameter
						args := append([]ssa.Value{c.Value}, c.Args...)
						e.confinedIface(con, c, args, mods)
						_ = ps
						continue
					}
					impls := e.implementations(c)
					if impls == nil {
						all = true
					}
					callees = append(callees, impls...)
					continue
				}
				switch f := c.Value.(type) {
				case *ssa.Function:
					if con := e.contractFor(f); con != nil && con.HasMod && (len(con.Writes) > 0 || hasConfined(con.Modifies)) {
						e.confinedMods(con, f.Params, c.Args, mods)
						continue
					}
					if isExternNoContract(e, f) {
						externArgHeaps(c, mods, true)
						continue
					}
					callees = append(callees, f)
				case *ssa.MakeClosure:
					callees = append(callees, f.Fn.(*ssa.Function))
				case *ssa.Builtin:
					switch f.Name() {
					case "append", "copy":
						if len(c.Args) > 0 && !rootIsLocalAlloc(c.Args[0], 0) {
							if sl, ok := c.Args[0].Type().Underlying().(*types.Slice); ok {
								addTypeHeaps("A."+typeName(sl.Elem()), sl.Elem(), mods)
							}
						}
					}
				default:
					// a call through a function value: anything may happen, unless the function's contract
					// declares its dynamic calls to be allocating constructors (opt dyncalls-pure, an assumption
					// about the TypeToRR table that is listed in the evidence)
					if _, tab := tableLookupKey(c.Value); tab {
					// a constructor of the TypeToRR literal: `return new(T)` (obligation #table.constructors)
					e.usesCtorTable = true
				} else if con := e.contractFor(fn); con != nil && con.Opts["dyncalls-pure"] != "" {
						e.assume("%s: calls through function values (record constructors of the TypeToRR table) only allocate", fnName(fn))
					} else {
						all = true
					}
				}
			}
		}
	}
	return mods, callees, all
}

var implCache = map[string][]*ssa.Function{}

// implementations lists the functions in the dns packages an interface method call may dispatch to
// (nil = unknown / user code).
func (e *Engine) implementations(c *ssa.CallCommon) []*ssa.Function {
	it, ok := c.Value.Type().Underlying().(*types.Interface)
	if !ok {
		return nil
	}
	key := types.TypeString(c.Value.Type(), nil) + "." + c.Method.Name()
	if r, ok := implCache[key]; ok {
		return r
	}
	var out []*ssa.Function
	named, _ := c.Value.Type().(*types.Named)
	if named == nil || named.Obj().Pkg() == nil || named.Obj().Pkg().Path() != dnsPath {
		implCache[key] = nil
		return nil
	}
	scope := e.dns.Pkg.Scope()
	for _, n := range scope.Names() {
		tn, ok := scope.Lookup(n).(*types.TypeName)
		if !ok {
			continue
		}
		for _, t := range []types.Type{tn.Type(), types.NewPointer(tn.Type())} {
			if types.IsInterface(t) {
				continue
			}
			if !types.Implements(t, it) {
				continue
			}
			sel := e.prog.MethodSets.MethodSet(t).Lookup(c.Method.Pkg(), c.Method.Name())
			if sel == nil {
				continue
			}
			if f := e.prog.MethodValue(sel); f != nil {
				out = append(out, f)
			}
			break
		}
	}
	implCache[key] = out
	return out
}

// stdPure: functions outside the repository are assumed to modify nothing visible unless listed here
// or given an extern contract with a modifies clause.
func (e *Engine) modset(fn *ssa.Function) map[string]bool {
	if m, ok := e.modsets[fn]; ok {
		return m
	}
	// iterative fixpoint over the call graph reachable from fn
	type info struct {
		local   map[string]bool
		callees []*ssa.Function
	}
	infos := map[*ssa.Function]*info{}
	var order []*ssa.Function
	var visit func(f *ssa.Function)
	visit = func(f *ssa.Function) {
		if _, ok := infos[f]; ok {
			return
		}
		if c := e.contractFor(f); c != nil && c.HasMod {
			m := map[string]bool{}
			for _, h := range c.Modifies {
				if i := strings.Index(h, "@"); i >= 0 {
					h = h[:i]
				}
				m[h] = true
			}
			for _, w := range c.Writes {
				for _, p := range f.Params {
					if p.Name() == w {
						if sl, ok := p.Type().Underlying().(*types.Slice); ok {
							addTypeHeaps("A."+typeName(sl.Elem()), sl.Elem(), m)
						}
					}
				}
			}
			infos[f] = &info{local: m}
			order = append(order, f)
			return
		}
		inRepo := f.Pkg != nil && strings.HasPrefix(f.Pkg.Pkg.Path(), dnsPath) || (f.Pkg == nil && f.Origin() != nil && f.Origin().Pkg != nil && strings.HasPrefix(f.Origin().Pkg.Pkg.Path(), dnsPath))
		if f.Parent() != nil {
			inRepo = true
		}
		if !inRepo || len(f.Blocks) == 0 {
			infos[f] = &info{local: map[string]bool{}}
			order = append(order, f)
			return
		}
		loc, callees, all := e.localMods(f)
		if all {
			loc["*"] = true
		}
		infos[f] = &info{local: loc, callees: callees}
		order = append(order, f)
		for _, c := range callees {
			visit(c)
		}
	}
	visit(fn)
	changed := true
	for changed {
		changed = false
		for _, f := range order {
			in := infos[f]
			for _, c := range in.callees {
				for h := range infos[c].local {
					if !in.local[h] {
						in.local[h] = true
						changed = true
					}
				}
			}
		}
	}
	for f, in := range infos {
		e.modsets[f] = in.local
	}
	return e.modsets[fn]
}

func sortedKeys(m map[string]bool) []string {
	var out []string
	for k := range m {
		out = append(out, k)
	}
	sort.Strings(out)
	return out
}

// initOnlyGlobals: package-level variables of package dns that are assigned exactly once, in the package
// initialiser, and never elsewhere (checked mechanically on every run over all function bodies).
func (e *Engine) initOnlyGlobal(g *ssa.Global) (ssa.Value, bool) {
	if !e.globalInitDone {
		e.globalInitDone = true
		e.globalInit = map[*ssa.Global]ssa.Value{}
		count := map[*ssa.Global]int{}
		bad := map[*ssa.Global]bool{}
		for _, fn := range e.funcs {
			if fn.Pkg == nil || !strings.HasPrefix(fn.Pkg.Pkg.Path(), dnsPath) {
				continue
			}
			var visit func(f *ssa.Function)
			visit = func(f *ssa.Function) {
				for _, b := range f.Blocks {
					for _, in := range b.Instrs {
						switch x := in.(type) {
						case *ssa.Store:
							if gl, ok := x.Addr.(*ssa.Global); ok {
								count[gl]++
								if f.Name() != "init" {
									bad[gl] = true
								}
								e.globalInit[gl] = x.Val
							}
						}
						// address taken (passed somewhere)?
						if _, isStore := in.(*ssa.Store); !isStore {
							for _, op := range in.Operands(nil) {
								if gl, ok := (*op).(*ssa.Global); ok {
									if u, isLoad := in.(*ssa.UnOp); isLoad && u.Op == token.MUL {
										continue
									}
									if _, isDbg := in.(*ssa.DebugRef); isDbg {
										continue
									}
									bad[gl] = true
								}
							}
						}
					}
				}
				for _, a := range f.AnonFuncs {
					visit(a)
				}
			}
			visit(fn)
		}
		for g, n := range count {
			if n != 1 || bad[g] {
				delete(e.globalInit, g)
			}
		}
		for g := range bad {
			delete(e.globalInit, g)
		}
	}
	v, ok := e.globalInit[g]
	return v, ok
}

// rootIsLocalAlloc: the address/slice v designates memory allocated by the function itself.
func rootIsLocalAlloc(v ssa.Value, depth int) bool {
	return rootIsLocal(v, map[ssa.Value]bool{})
}

func rootIsLocal(v ssa.Value, seen map[ssa.Value]bool) bool {
	if seen[v] {
		return true // cycle through a loop phi: decided by the other edges
	}
	seen[v] = true
	depth := 0
	switch x := v.(type) {
	case *ssa.Alloc, *ssa.MakeSlice, *ssa.MakeMap:
		return true
	case *ssa.Const:
		return x.Value == nil // nil slice: append allocates
	case *ssa.FieldAddr:
		return rootIsLocal(x.X, seen)
	case *ssa.IndexAddr:
		return rootIsLocal(x.X, seen)
	case *ssa.Slice:
		return rootIsLocal(x.X, seen)
	case *ssa.ChangeType:
		return rootIsLocal(x.X, seen)
	case *ssa.Convert:
		// []byte(string) allocates
		if _, ok := x.Type().Underlying().(*types.Slice); ok {
			if b, ok := x.X.Type().Underlying().(*types.Basic); ok && b.Info()&types.IsString != 0 {
				return true
			}
		}
		return false
	case *ssa.Phi:
		for _, e := range x.Edges {
			if e == v {
				continue
			}
			if !rootIsLocal(e, seen) {
				return false
			}
		}
		return true
	case *ssa.Call:
		if b, ok := x.Call.Value.(*ssa.Builtin); ok && b.Name() == "append" {
			return rootIsLocal(x.Call.Args[0], seen)
		}
		// results of callees whose contract says `fresh` are objects allocated during this call
		if theEngine != nil {
			if x.Call.IsInvoke() {
				if x.Call.Method.Name() == "Header" {
					return rootIsLocal(x.Call.Value, seen) // &rr.Hdr: inside the receiver
				}
				if con := theEngine.ifaceContract(&x.Call); con != nil && con.Fresh {
					return true
				}
			} else if f, ok := x.Call.Value.(*ssa.Function); ok {
				if con := theEngine.contractFor(f); con != nil && con.Fresh {
					return true
				}
			}
		}
	case *ssa.UnOp:
		// a load from a local variable cell (a variable captured by a closure lives in such a cell): the value is
		// whatever the nearest preceding store in the same block put there, provided no closure writes the cell
		if x.Op.String() != "*" {
			return false
		}
		cell, ok := x.X.(*ssa.Alloc)
		if !ok || cellWrittenByClosure(cell) {
			return false
		}
		b := x.Block()
		at := -1
		for i, in := range b.Instrs {
			if in == ssa.Instruction(x) {
				at = i
			}
		}
		for i := at - 1; i >= 0; i-- {
			if st, ok := b.Instrs[i].(*ssa.Store); ok && st.Addr == ssa.Value(cell) {
				return rootIsLocal(st.Val, seen)
			}
		}
		return false
	case *ssa.TypeAssert:
		return rootIsLocal(x.X, seen)
	case *ssa.MakeInterface:
		return rootIsLocal(x.X, seen)
	case *ssa.ChangeInterface:
		return rootIsLocal(x.X, seen)
	case *ssa.Extract:
		return rootIsLocal(x.Tuple, seen)
	}
	_ = depth
	return false
}

var theEngine *Engine

// inferredMods: heaps the body of fn may modify in pre-existing objects (its own declared frame ignored).
func (e *Engine) inferredMods(fn *ssa.Function) map[string]bool {
	out := map[string]bool{}
	if len(fn.Blocks) == 0 {
		return out
	}
	loc, callees, all := e.localMods(fn)
	for h := range loc {
		out[h] = true
	}
	if all {
		out["*"] = true
	}
	for _, c := range callees {
		if c == fn {
			continue
		}
		for h := range e.modset(c) {
			out[h] = true
		}
	}
	return out
}

func hasConfined(mods []string) bool {
	for _, m := range mods {
		if strings.Contains(m, "@") {
			return true
		}
	}
	return false
}

// confinedMods adds the effects of a call whose contract confines them to its arguments: `writes p` (the
// backing array of slice p) and `modifies H@p` (heap H of the object p designates).  Effects on arguments
// that are local to the calling function (allocated by it or fresh results) are invisible to its callers.
func (e *Engine) confinedMods(con *Contract, params []*ssa.Parameter, args []ssa.Value, mods map[string]bool) {
	argOf := func(name string) ssa.Value {
		for pi, p := range params {
			if (p.Name() == name || (name == "recv" && pi == 0)) && pi < len(args) {
				return args[pi]
			}
		}
		return nil
	}
	for _, w := range con.Writes {
		if a := argOf(w); a != nil && !rootIsLocalAlloc(a, 0) && !isNilRefConst(a) {
			if sl, ok := a.Type().Underlying().(*types.Slice); ok {
				addTypeHeaps("A."+typeName(sl.Elem()), sl.Elem(), mods)
			}
		}
	}
	for _, m := range con.Modifies {
		i := strings.Index(m, "@")
		if i < 0 {
			mods[m] = true
			continue
		}
		if a := argOf(m[i+1:]); a == nil || (!rootIsLocalAlloc(a, 0) && !isNilRefConst(a)) {
			mods[m[:i]] = true
		}
	}
}

func (e *Engine) confinedIface(con *Contract, c *ssa.CallCommon, args []ssa.Value, mods map[string]bool) {
	sig := c.Signature()
	argOf := func(name string) ssa.Value {
		if name == "recv" {
			return args[0]
		}
		for i := 0; i < sig.Params().Len(); i++ {
			if sig.Params().At(i).Name() == name && i+1 < len(args) {
				return args[i+1]
			}
		}
		return nil
	}
	for _, w := range con.Writes {
		if a := argOf(w); a != nil && !rootIsLocalAlloc(a, 0) && !isNilRefConst(a) {
			if sl, ok := a.Type().Underlying().(*types.Slice); ok {
				addTypeHeaps("A."+typeName(sl.Elem()), sl.Elem(), mods)
			}
		}
	}
	for _, m := range con.Modifies {
		i := strings.Index(m, "@")
		if i < 0 {
			mods[m] = true
			continue
		}
		if a := argOf(m[i+1:]); a == nil || (!rootIsLocalAlloc(a, 0) && !isNilRefConst(a)) {
			mods[m[:i]] = true
		}
	}
}

// isNilConst: the nil literal designates no object, so effects confined to it are no effects.
func isNilRefConst(v ssa.Value) bool {
	c, ok := v.(*ssa.Const)
	return ok && c.IsNil()
}

// externArgHeaps: a library function without a contract may write through the pointers, slices and maps it
// is handed (directly or boxed in an interface at the call site).  Interface and function values of unknown
// dynamic type are not followed (listed assumption).
func externArgHeaps(c *ssa.CallCommon, into map[string]bool, skipLocal bool) {
	var add func(v ssa.Value, depth int)
	add = func(v ssa.Value, depth int) {
		if depth > 3 || isNilRefConst(v) {
			return
		}
		if skipLocal && rootIsLocalAlloc(v, 0) {
			return
		}
		switch t := v.Type().Underlying().(type) {
		case *types.Pointer:
			et := t.Elem()
			addTypeHeaps("M."+typeName(et), et, into)
		case *types.Slice:
			if _, isStr := t.Elem().Underlying().(*types.Basic); isStr || true {
				addTypeHeaps("A."+typeName(t.Elem()), t.Elem(), into)
			}
		case *types.Map:
			into["MS."+typeName(v.Type())] = true
		case *types.Interface:
			if mi, ok := v.(*ssa.MakeInterface); ok {
				add(mi.X, depth+1)
			}
		}
	}
	for _, a := range c.Args {
		add(a, 0)
	}
}

func isExternNoContract(e *Engine, f *ssa.Function) bool {
	inRepo := f.Pkg != nil && strings.HasPrefix(f.Pkg.Pkg.Path(), dnsPath) || (f.Pkg == nil && f.Origin() != nil && f.Origin().Pkg != nil && strings.HasPrefix(f.Origin().Pkg.Pkg.Path(), dnsPath))
	if f.Parent() != nil || (f.Pkg == nil && f.Synthetic != "" && f.Origin() == nil) {
		inRepo = true // closures and wrappers belong to the code that mentions them
	}
	if inRepo && len(f.Blocks) > 0 {
		return false
	}
	return e.contractFor(f) == nil
}

// cellWrittenByClosure: some closure capturing the variable cell stores into it.
func cellWrittenByClosure(cell *ssa.Alloc) bool {
	refs := cell.Referrers()
	if refs == nil {
		return false
	}
	for _, r := range *refs {
		mc, ok := r.(*ssa.MakeClosure)
		if !ok {
			continue
		}
		fn := mc.Fn.(*ssa.Function)
		for bi, b := range mc.Bindings {
			if b != ssa.Value(cell) || bi >= len(fn.FreeVars) {
				continue
			}
			fv := fn.FreeVars[bi]
			if fr := fv.Referrers(); fr != nil {
				for _, u := range *fr {
					if st, ok := u.(*ssa.Store); ok && st.Addr == ssa.Value(fv) {
						return true
					}
					if _, ok := u.(*ssa.MakeClosure); ok {
						return true // passed on to a nested closure: give up
					}
				}
			}
		}
	}
	return false
}

// objectConfined: does every store of leaf function fn into heap h go to a field of the object its parameter
// `param` points to?  Only then is `modifies h@param` applied per object at call sites (the other objects' cells
// keep their values); otherwise the whole heap is havocked, which is always sound.  Deliberately narrow: fn makes
// no calls at all, and the store address is a field of the parameter itself.
func (e *Engine) objectConfined(fn *ssa.Function, h string, param string) bool {
	if fn == nil || len(fn.Blocks) == 0 {
		return false
	}
	var pv ssa.Value
	for pi, p := range fn.Params {
		if p.Name() == param || (param == "recv" && pi == 0 && fn.Signature.Recv() != nil) {
			pv = p
		}
	}
	if pv == nil {
		return false
	}
	for _, b := range fn.Blocks {
		for _, in := range b.Instrs {
			switch x := in.(type) {
			case ssa.CallInstruction:
				if _, isBuiltin := x.Common().Value.(*ssa.Builtin); !isBuiltin {
					return false
				}
			case *ssa.MapUpdate, *ssa.Send:
				return false
			case *ssa.Store:
				hs := map[string]bool{}
				storeHeaps(x.Addr, hs)
				if !hs[h] {
					continue
				}
				fa, ok := x.Addr.(*ssa.FieldAddr)
				if !ok || fa.X != pv {
					return false
				}
			}
		}
	}
	return true
}
