package main

import "fmt"

func (e *Engine) cmdMods(names []string) {
	for _, n := range names {
		fn := e.funcs[n]
		if fn == nil {
			fmt.Println("unknown", n)
			continue
		}
		fmt.Println(n, sortedKeys(e.modset(fn)))
	}
}
