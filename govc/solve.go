package main

import (
	"regexp"
	"bytes"
	"context"
	"fmt"
	"golang.org/x/tools/go/ssa"
	"os"
	"os/exec"
	"path/filepath"
	"strings"
	"sync"
	"time"
)

type solverSpec struct {
	name string
	args func(file string, timeout int) []string
}

var solvers = []solverSpec{
	{"z3-new", func(f string, t int) []string { return []string{"z3-new", fmt.Sprintf("-T:%d", t), f} }},
	{"cvc5", func(f string, t int) []string {
		// (cvc5 1.0.3 rejects `--incremental=false`; non-incremental is its default.  With that flag every cvc5 run ended
		// in an option error that was read as "no answer": the portfolio ran without cvc5 until this was noticed.)
		return []string{"cvc5", fmt.Sprintf("--tlimit=%d", t*1000), f}
	}},
	{"z3", func(f string, t int) []string { return []string{"z3", fmt.Sprintf("-T:%d", t), f} }},
}

func runSolver(s solverSpec, file string, timeout int) (string, string, float64) {
	return runSolverCtx(context.Background(), s, file, timeout)
}

func runSolverCtx(parent context.Context, s solverSpec, file string, timeout int) (string, string, float64) {
	ctx, cancel := context.WithTimeout(parent, time.Duration(timeout+2)*time.Second)
	defer cancel()
	a := s.args(file, timeout)
	cmd := exec.CommandContext(ctx, a[0], a[1:]...)
	var out bytes.Buffer
	cmd.Stdout = &out
	cmd.Stderr = &out
	t0 := time.Now()
	cmd.Run()
	dt := time.Since(t0).Seconds()
	text := out.String()
	first := strings.TrimSpace(strings.SplitN(strings.TrimSpace(text), "\n", 2)[0])
	switch first {
	case "sat", "unsat", "unknown":
		return first, text, dt
	}
	if strings.Contains(text, "timeout") || ctx.Err() != nil {
		return "timeout", text, dt
	}
	if strings.Contains(text, "option") {
		fmt.Fprintf(os.Stderr, "govc: solver %s rejected its command line: %s\n", s.name, first)
	}
	return "error", text, dt
}

// query renders the SMT-LIB text of one obligation.
func (fc *FnCtx) query(ob *Obligation, axiomEnc bool, withModel bool) string {
	return fc.queryWith(ob, axiomEnc, withModel, nil)
}

func (fc *FnCtx) queryWith(ob *Obligation, axiomEnc bool, withModel bool, extra []string) string {
	enc := encRec
	if axiomEnc {
		enc = encAx
	}
	return fc.queryEnc(ob, enc, withModel, extra)
}

// smallModelHints bounds the lengths of input sequences (used only to pick a convenient counterexample).
func (fc *FnCtx) smallModelHints() []string {
	var out []string
	for _, p := range fc.fn.Params {
		v := fc.vals[p]
		if v.K == KStr || v.K == KSlice {
			out = append(out, fmt.Sprintf("(<= %s 48)", v.C[2]))
			if v.K == KSlice {
				out = append(out, fmt.Sprintf("(= %s %s)", v.C[3], v.C[2]))
			}
		}
	}
	return out
}

func (fc *FnCtx) queryEnc(ob *Obligation, enc int, withModel bool, extra []string) string {
	// encLean: like encOpaque, and the quantified sibling obligations established at the same program point (the
	// other invariants re-established at the same back edge, the other conjuncts asserted at the same line) are not
	// assumed: they speak about the same new state and mostly feed instantiation loops
	lean := enc == encLean
	if lean {
		enc = encOpaque
	}
	var body strings.Builder
	var anc map[*ssa.BasicBlock]bool
	if ob.Block != nil && os.Getenv("GOVC_NOSLICE") == "" {
		anc = fc.ancestors(ob.Block)
	}
	for i, a := range fc.asserts[:ob.Prefix] {
		if anc != nil && fc.assertBlk[i] != nil && !anc[fc.assertBlk[i]] {
			continue
		}
		if lean {
			if o2 := fc.assertOb[i]; o2 != nil && o2.Guard == ob.Guard && o2.Block == ob.Block && strings.Contains(a, "(forall ") {
				continue
			}
		}
		body.WriteString("(assert " + a + ")\n")
	}
	for _, a := range extra {
		body.WriteString("(assert " + a + ")\n")
	}
	goal := implies(ob.Guard, ob.Cond)
	if ob.Expect == "sat" {
		body.WriteString("(assert " + goal + ")\n")
	} else {
		body.WriteString("(assert (not " + goal + "))\n")
	}
	text := body.String()
	// function-wide facts (allocation distinctness, bit-operation facts, string constants) are included only when
	// every value they speak about occurs in the sliced query: a fact about the values of blocks that were sliced
	// away cannot contribute, and the arithmetic in some of them (mod 2^64) slows the solvers down noticeably
	var glob strings.Builder
	{
		// connectivity closure: a fact is kept when it shares a value with the sliced query or with a kept fact
		syms := make([][]string, len(fc.globals))
		kept := make([]bool, len(fc.globals))
		have := map[string]bool{}
		for _, sy := range valueSymRe.FindAllString(text, -1) {
			have[sy] = true
		}
		present := func(sy string) bool { return have[sy] }
		for i, a := range fc.globals {
			syms[i] = valueSymRe.FindAllString(a, -1)
			if len(syms[i]) == 0 || os.Getenv("GOVC_NOSLICE") != "" {
				kept[i] = true
			}
		}
		for changed := true; changed; {
			changed = false
			for i := range fc.globals {
				if kept[i] {
					continue
				}
				for _, sy := range syms[i] {
					if present(sy) {
						kept[i], changed = true, true
						for _, s2 := range syms[i] {
							have[s2] = true
						}
						break
					}
				}
			}
		}
		for i, a := range fc.globals {
			if kept[i] {
				glob.WriteString("(assert " + a + ")\n")
			}
		}
	}
	text = glob.String() + text
	// cited lemmas are included only where all the spec functions they speak about are in play
	var lem strings.Builder
	for _, la := range fc.lemmaAsserts {
		ok := true
		for _, sy := range la.specs {
			if !strings.Contains(text, sy+" ") && !strings.Contains(text, sy+")") {
				ok = false
			}
		}
		if ok {
			lem.WriteString("(assert " + la.text + ")\n")
		}
	}
	text = lem.String() + text
	var sb strings.Builder
	sb.WriteString("; obligation " + ob.Name + "\n")
	if withModel {
		sb.WriteString("(set-option :produce-models true)\n")
	}
	sb.WriteString("(set-logic ALL)\n")
	for _, h := range helperDefs(fc.helpers) {
		sb.WriteString(h + "\n")
	}
	for _, d := range fc.decls {
		sb.WriteString(d + "\n")
	}
	for _, s := range fc.specText(text, enc) {
		sb.WriteString(s + "\n")
	}
	sb.WriteString(text)
	sb.WriteString("(check-sat)\n")
	if withModel && len(fc.inputs) > 0 {
		sb.WriteString("(get-value (" + strings.Join(fc.modelTerms(), " ") + "))\n")
	}
	return sb.String()
}

// valueSymRe matches the SMT constants that stand for program values (name!serial)
var valueSymRe = regexp.MustCompile(`[A-Za-z_$][^\s()]*![0-9]+`)

type lemmaAssert struct {
	text  string
	specs []string
}

func (fc *FnCtx) modelTerms() []string {
	var out []string
	for _, in := range fc.inputs {
		if fc.declSort(in) == SArr {
			continue
		}
		out = append(out, in)
	}
	return out
}

func (fc *FnCtx) declSort(name string) string {
	for _, d := range fc.decls {
		if strings.HasPrefix(d, "(declare-fun "+name+" ") {
			return strings.TrimSuffix(strings.TrimPrefix(d, "(declare-fun "+name+" () "), ")")
		}
	}
	return ""
}

func (fc *FnCtx) hasQuantOrSpec() bool { return len(fc.specsUsed) > 0 }

// discharge one obligation with the solver portfolio.
func (e *Engine) discharge(ob *Obligation, idx int) {
	fc := ob.fc
	if ob.Status == "failed" && (ob.Kind == "frame" || ob.Kind == "anchor") {
		return
	}
	if ob.Kind == "layout" {
		return // decided structurally
	}
	goal := implies(ob.Guard, ob.Cond)
	if goal == "true" || ob.Cond == "true" {
		ob.Status = "trivial"
		return
	}
	base := filepath.Join(e.workdir, fmt.Sprintf("%s_%d", mangle(ob.Name), idx))
	write := func(suffix string, axiomEnc, model bool) string {
		f := base + suffix + ".smt2"
		os.WriteFile(f, []byte(fc.query(ob, axiomEnc, model)), 0o644)
		return f
	}
	f1 := write("", false, false)
	t0 := time.Now()
	trySplit := func() bool {
		if len(ob.Cases) <= 1 || len(ob.Cases) > 8 {
			return false
		}
		cases := fc.expandCases(ob.Cases)
		// the cases are independent queries: run them side by side (the query texts are produced first, the
		// generator is not re-entrant)
		files := make([]string, len(cases))
		axFiles := make([]string, len(cases))
		quant := fc.hasQuantOrSpec()
		for ci, c := range cases {
			files[ci] = base + fmt.Sprintf(".case%d.smt2", ci)
			os.WriteFile(files[ci], []byte(fc.queryWith(ob, false, false, []string{c})), 0o644)
			if quant {
				axFiles[ci] = base + fmt.Sprintf(".case%d.ax.smt2", ci)
				os.WriteFile(axFiles[ci], []byte(fc.queryWith(ob, true, false, []string{c})), 0o644)
			}
		}
		okc := make([]bool, len(cases))
		var wg sync.WaitGroup
		for ci := range cases {
			wg.Add(1)
			go func(ci int) {
				defer wg.Done()
				// race the solvers (and the axiom encoding) on this case; the first proof ends the race
				ctx, cancel := context.WithCancel(context.Background())
				defer cancel()
				type try struct {
					s solverSpec
					f string
				}
				tries := []try{{solvers[0], files[ci]}, {solvers[1], files[ci]}}
				if quant {
					tries = append(tries, try{solvers[0], axFiles[ci]})
				}
				resc := make(chan string, len(tries))
				for _, t := range tries {
					go func(t try) {
						r, _, _ := runSolverCtx(ctx, t.s, t.f, e.timeout)
						resc <- r
					}(t)
				}
				for range tries {
					if <-resc == "unsat" {
						okc[ci] = true
						cancel()
						break
					}
				}
			}(ci)
		}
		wg.Wait()
		for ci := range cases {
			if !okc[ci] {
				return false
			}
		}
		for ci := range cases {
			e.rm(files[ci])
			if axFiles[ci] != "" {
				e.rm(axFiles[ci])
			}
		}
		ob.Status, ob.Solver, ob.Time = "proved", "z3-new/cvc5 (case split on block entry edges)", time.Since(t0).Seconds()
		ob.Strategy = "split"
		return true
	}
	if e.hints[baseName(ob.Name)] == "split" && ob.Kind != "canary" {
		if trySplit() {
			e.rm(f1)
			return
		}
	}
	// learned hint "enc:<solver>+<encoding>": the attempt that proved this obligation on the unchanged tree goes first
	// (ordering only: any answer but a proof falls through to the full pipeline below)
	if h := e.hints[baseName(ob.Name)]; strings.HasPrefix(h, "enc:") && ob.Kind != "canary" {
		parts := strings.SplitN(h[4:], "+", 2)
		var sp *solverSpec
		for i := range solvers {
			if solvers[i].name == parts[0] {
				sp = &solvers[i]
			}
		}
		q := ""
		if sp != nil && len(parts) == 2 {
			switch parts[1] {
			case "axioms":
				q = fc.query(ob, true, false)
			case "opaque":
				q = fc.queryEnc(ob, encOpaque, false, nil)
			case "opaque+lean":
				q = fc.queryEnc(ob, encLean, false, nil)
			}
		}
		if q != "" {
			fh := base + ".hint.smt2"
			os.WriteFile(fh, []byte(q), 0o644)
			bud := e.timeout
			if bud > 6 {
				bud = 6
			}
			r, _, _ := runSolver(*sp, fh, bud)
			e.rm(fh)
			if r == "unsat" {
				ob.Status, ob.Solver, ob.Time = "proved", h[4:], time.Since(t0).Seconds()
				e.rm(f1)
				return
			}
		}
	}
	type attempt struct {
		s    solverSpec
		file string
	}
	// stage 1: z3-new on the define-fun-rec encoding (short budget), stage 2: everything else in parallel
	st1 := e.timeout
	if st1 > 4 {
		st1 = 4
	}
	if ob.Kind == "canary" {
		// vacuity guard: only a quick refutation matters (unsat = contradictory assumptions)
		res, _, _ := runSolver(solvers[0], f1, 2)
		ob.Time = time.Since(t0).Seconds()
		switch res {
		case "unsat":
			ob.Status, ob.Solver = "proved", "z3-new"
		case "sat":
			ob.Status, ob.Solver = "failed", "z3-new"
		default:
			ob.Status = "unknown"
		}
		e.rm(f1)
		return
	}
	// stage 1 races z3-new and cvc5 on the plain encoding: the first proof wins; a `sat` of z3-new is final
	s1ctx, s1cancel := context.WithCancel(context.Background())
	type s1res struct{ who, res, out string }
	s1ch := make(chan s1res, 2)
	go func() { r, o, _ := runSolverCtx(s1ctx, solvers[0], f1, st1); s1ch <- s1res{"z3-new", r, o} }()
	go func() { r, o, _ := runSolverCtx(s1ctx, solvers[1], f1, st1); s1ch <- s1res{"cvc5", r, o} }()
	res, out := "", ""
	for k := 0; k < 2; k++ {
		r := <-s1ch
		if r.res == "unsat" {
			s1cancel()
			ob.Status, ob.Solver, ob.Time = "proved", r.who, time.Since(t0).Seconds()
			e.rm(f1)
			return
		}
		if r.who == "z3-new" {
			res, out = r.res, r.out
			if r.res == "sat" {
				break
			}
		}
	}
	s1cancel()
	satBy := ""
	if res == "sat" {
		satBy = "z3-new"
	}
	ob.Output = out
	if res == "sat" {
		// a definite counterexample: no need to race the other solvers
		ob.Status, ob.Solver, ob.Time = "failed", "z3-new", time.Since(t0).Seconds()
		if ob.Kind != "canary" {
			// prefer a small model (short sequences): easier to replay
			fs := base + ".small.smt2"
			os.WriteFile(fs, []byte(fc.queryWith(ob, false, true, fc.smallModelHints())), 0o644)
			r, o, _ := runSolver(solvers[0], fs, e.timeout)
			if r != "sat" {
				fm := write(".model", false, true)
				_, o, _ = runSolver(solvers[0], fm, e.timeout)
			}
			ob.Model = o
		}
		return
	}
	atts := []attempt{{solvers[1], f1}, {solvers[2], f1}}
	if e.timeout > st1 {
		atts = append(atts, attempt{solvers[0], f1})
	}
	var f2, f3, f4 string
	if fc.hasQuantOrSpec() {
		f2 = write(".ax", true, false)
		atts = append(atts, attempt{solvers[0], f2}, attempt{solvers[1], f2})
		if q3 := fc.queryEnc(ob, encOpaque, false, nil); !strings.Contains(q3, "(define-funs-rec ") && strings.Contains(fc.query(ob, false, false), "(define-funs-rec ") {
			f3 = base + ".op.smt2"
			os.WriteFile(f3, []byte(q3), 0o644)
			atts = append(atts, attempt{solvers[0], f3}, attempt{solvers[1], f3})
			if q4 := fc.queryEnc(ob, encLean, false, nil); q4 != q3 {
				f4 = base + ".lean.smt2"
				os.WriteFile(f4, []byte(q4), 0o644)
				atts = append(atts, attempt{solvers[0], f4}, attempt{solvers[1], f4})
			}
		}
	}
	type result struct {
		name, res, out string
	}
	ch := make(chan result, len(atts))
	race, stopRace := context.WithCancel(context.Background())
	defer stopRace()
	for _, a := range atts {
		go func(a attempt) {
			r, o, _ := runSolverCtx(race, a.s, a.file, e.timeout)
			enc := ""
			if a.file == f2 {
				enc = "+axioms"
			} else if a.file == f3 && f3 != "" {
				enc = "+opaque"
			} else if a.file == f4 && f4 != "" {
				enc = "+opaque+lean"
			}
			ch <- result{a.s.name + enc, r, o}
		}(a)
	}
	proved := ""
	for range atts {
		r := <-ch
		if r.res == "unsat" && proved == "" {
			proved = r.name
			stopRace() // the others are only racing for the same answer
			break
		}
		if r.res == "sat" && satBy == "" && !strings.HasPrefix(r.name, "z3+") && r.name != "z3" && !strings.Contains(r.name, "+opaque") {
			// (a `sat` of z3 4.8.12 on goals with recursive definitions/quantifiers proved unreliable; ignored)
			satBy = r.name
			ob.Output = r.out
		}
	}
	ob.Time = time.Since(t0).Seconds()
	if proved != "" {
		if satBy != "" {
			ob.Output = "solver disagreement: " + satBy + " says sat, " + proved + " says unsat"
		}
		ob.Status, ob.Solver = "proved", proved
		e.rm(f1)
		if f2 != "" {
			e.rm(f2)
		}
		if f3 != "" {
			e.rm(f3)
		}
		if f4 != "" {
			e.rm(f4)
		}
		return
	}
	if satBy != "" {
		ob.Status, ob.Solver = "failed", satBy
		// model
		fm := write(".model", false, true)
		for _, s := range solvers {
			if strings.HasPrefix(satBy, s.name) && (s.name != "z3" || !strings.HasPrefix(satBy, "z3-new")) {
				_, o, _ := runSolver(s, fm, e.timeout)
				ob.Model = o
				break
			}
		}
		return
	}
	// last resort: split on the incoming edges of the obligation's block (each case is a smaller problem)
	if trySplit() {
		return
	}
	ob.Status = "unknown"
}

func (e *Engine) dischargeAll(obls []*Obligation) {
	var wg sync.WaitGroup
	sem := make(chan struct{}, e.jobs)
	for i, ob := range obls {
		wg.Add(1)
		sem <- struct{}{}
		go func(i int, ob *Obligation) {
			defer wg.Done()
			defer func() { <-sem }()
			e.discharge(ob, i)
		}(i, ob)
	}
	wg.Wait()
}

// expandCases refines block-entry cases: a case that is a reach variable defined as a disjunction of edges is
// replaced by its disjuncts (two levels), so that each query follows one path family.
func (fc *FnCtx) expandCases(cases []string) []string {
	defs := map[string]string{}
	for _, a := range fc.asserts {
		if strings.HasPrefix(a, "(= R") {
			rest := a[3:]
			if i := strings.Index(rest, " "); i > 0 {
				defs[rest[:i]] = strings.TrimSuffix(rest[i+1:], ")")
			}
		}
	}
	expand := func(c string) []string {
		d, ok := defs[c]
		if !ok || !strings.HasPrefix(d, "(or ") {
			return []string{c}
		}
		// split top-level disjuncts
		body := d[4 : len(d)-1]
		var out []string
		depth, start := 0, 0
		for i := 0; i < len(body); i++ {
			switch body[i] {
			case '(':
				depth++
			case ')':
				depth--
			case ' ':
				if depth == 0 {
					if i > start {
						out = append(out, body[start:i])
					}
					start = i + 1
				}
			}
		}
		if start < len(body) {
			out = append(out, body[start:])
		}
		return out
	}
	cur := cases
	for level := 0; level < 2; level++ {
		var next []string
		for _, c := range cur {
			next = append(next, expand(c)...)
		}
		if len(next) > 16 {
			break
		}
		cur = next
	}
	return cur
}

// rm removes a query file unless GOVC_KEEP is set (debugging aid: proved queries are kept as well).
func (e *Engine) rm(f string) {
	if os.Getenv("GOVC_KEEP") == "" {
		os.Remove(f)
	}
}
