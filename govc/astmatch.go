package main

// Structural obligations for the generated len(), copy() and isDuplicate() methods (ztypes.go, zduplicate.go).
//
// These methods are straight-line, one statement (group) per record field.  The expected statement for each
// field is derived from the record schema (codec -> length formula / comparison) and from the Go type of the
// field (reference types must be cloned by copy()); the real function body, taken from the syntax tree of the
// current source, must consist of exactly these statements in schema order.  Decided without a solver; a
// mismatch is a failed obligation `(*T).len#schema`, `(*T).copy#deep`, `(*T).isDuplicate#schema`.

import (
	"go/constant"
	"golang.org/x/tools/go/ssa"
	"bytes"
	"fmt"
	"go/ast"
	"go/printer"
	"go/types"
	"strings"
)

func (e *Engine) stmtText(n ast.Node) string {
	var buf bytes.Buffer
	printer.Fprint(&buf, e.fset, n)
	// normalise whitespace, drop comments (printer.Fprint on a node without the file's comment map omits them)
	f := strings.Fields(buf.String())
	return strings.Join(f, " ")
}

func norm(s string) string { return strings.Join(strings.Fields(s), " ") }

func (e *Engine) funcBody(name string) (*ast.FuncDecl, bool) {
	fn := e.funcs[name]
	if fn == nil {
		return nil, false
	}
	fd, ok := fn.Syntax().(*ast.FuncDecl)
	return fd, ok && fd.Body != nil
}

func gatewaySwitchLen(sel, hostField string) []string {
	var out []string
	for _, fam := range []string{"IPSECGateway", "AMTRELAY"} {
		out = append(out, norm(fmt.Sprintf("switch rr.%s { case %sIPv4: l += net.IPv4len case %sIPv6: l += net.IPv6len case %sHost: l += len(rr.%s) + 1 }", selExpr(sel), fam, fam, fam, hostField)))
	}
	return out
}

func selExpr(sel string) string {
	if i := strings.Index(sel, "&"); i >= 0 {
		return sel[:i] + " & " + sel[i+1:]
	}
	return sel
}

// expectedLen returns, per schema field, the accepted statement texts.
func expectedLen(sf SchemaField) ([]string, bool) {
	F := sf.GoFields[0]
	switch sf.Codec {
	case "u8":
		return []string{"l++"}, true
	case "u16":
		return []string{"l += 2"}, true
	case "u32":
		return []string{"l += 4"}, true
	case "u48":
		return []string{"l += 6"}, true
	case "u64":
		return []string{"l += 8"}, true
	case "a":
		return []string{norm("if len(rr." + F + ") != 0 { l += net.IPv4len }")}, true
	case "aaaa":
		return []string{norm("if len(rr." + F + ") != 0 { l += net.IPv6len }")}, true
	case "name":
		return []string{"l += domainNameLen(rr." + F + ", off+l, compression, false)"}, true
	case "cname":
		return []string{"l += domainNameLen(rr." + F + ", off+l, compression, true)"}, true
	case "str":
		return []string{"l += len(rr." + F + ") + 1"}, true
	case "txts":
		return []string{norm("for _, x := range rr." + F + " { l += len(x) + 1 }")}, true
	case "octet", "any":
		return []string{"l += len(rr." + F + ")"}, true
	case "hex":
		return []string{"l += len(rr." + F + ") / 2"}, true
	case "b64":
		return []string{"l += base64.StdEncoding.DecodedLen(len(rr." + F + "))"}, true
	case "names":
		return []string{norm("for _, x := range rr." + F + " { l += domainNameLen(x, off+l, compression, false) }")}, true
	case "apl":
		return []string{norm("for _, x := range rr." + F + " { l += x.len() }")}, true
	case "svcparams":
		return []string{norm("for _, x := range rr." + F + " { l += 4 + int(x.len()) }")}, true
	case "gateway":
		return gatewaySwitchLen(sf.Arg, sf.GoFields[1]), true
	}
	return nil, false
}

func oneOf(got string, want []string) bool {
	for _, w := range want {
		if got == w {
			return true
		}
	}
	return false
}

func (e *Engine) checkLenSchema(tname string, fields []SchemaField) layoutResult {
	fd, ok := e.funcBody("(*" + tname + ").len")
	if !ok {
		return layoutResult{false, "function not found"}
	}
	stmts := fd.Body.List
	if len(stmts) < 2 {
		return layoutResult{false, "unrecognised shape"}
	}
	if got := e.stmtText(stmts[0]); got != "l := rr.Hdr.len(off, compression)" {
		return layoutResult{false, "first statement is not the header length: " + got}
	}
	if got := e.stmtText(stmts[len(stmts)-1]); got != "return l" {
		return layoutResult{false, "last statement is not `return l`: " + got}
	}
	body := stmts[1 : len(stmts)-1]
	if len(body) != len(fields) {
		return layoutResult{false, fmt.Sprintf("%d length statements for %d schema fields", len(body), len(fields))}
	}
	for i, sf := range fields {
		want, ok := expectedLen(sf)
		if !ok {
			return layoutResult{false, "no length formula for codec " + sf.Codec + " (hand-written len expected)"}
		}
		got := e.stmtText(body[i])
		if !oneOf(got, want) {
			return layoutResult{false, fmt.Sprintf("field %d (%s:%s): length statement is `%s`, the schema requires `%s`", i+1, strings.Join(sf.GoFields, ","), sf.Codec, got, want[0])}
		}
	}
	return layoutResult{true, ""}
}

// ---------------------------------------------------------------------------
// copy

func isDeepElem(t types.Type) bool {
	// element types that themselves hold references and need their own copy()
	switch typeName(t) {
	case "APLPrefix", "EDNS0", "SVCBKeyValue":
		return true
	}
	return false
}

func (e *Engine) checkCopyDeep(tname string) layoutResult {
	fd, ok := e.funcBody("(*" + tname + ").copy")
	if !ok {
		return layoutResult{false, "function not found"}
	}
	tt := e.lookupType(tname)
	st, ok := tt.Underlying().(*types.Struct)
	if !ok {
		return layoutResult{false, "not a struct"}
	}
	stmts := fd.Body.List
	ret, ok := stmts[len(stmts)-1].(*ast.ReturnStmt)
	if !ok || len(ret.Results) != 1 {
		return layoutResult{false, "last statement is not a return"}
	}
	// embedded record: return &T{*rr.X.copy().(*X)}
	if st.NumFields() == 1 && st.Field(0).Embedded() {
		x := st.Field(0).Name()
		want := fmt.Sprintf("return &%s{*rr.%s.copy().(*%s)}", tname, x, x)
		if got := e.stmtText(ret); got != want {
			return layoutResult{false, "copy of an embedding type is `" + got + "`, expected `" + want + "`"}
		}
		if len(stmts) != 1 {
			return layoutResult{false, "unexpected statements before the return"}
		}
		return layoutResult{true, ""}
	}
	ue, ok := ret.Results[0].(*ast.UnaryExpr)
	if !ok {
		return layoutResult{false, "return value is not &T{...}"}
	}
	cl, ok := ue.X.(*ast.CompositeLit)
	if !ok || e.stmtText(cl.Type) != tname {
		return layoutResult{false, "return value is not &" + tname + "{...}"}
	}
	if len(cl.Elts) != st.NumFields() {
		return layoutResult{false, fmt.Sprintf("%d elements in the literal for %d struct fields", len(cl.Elts), st.NumFields())}
	}
	pre := stmts[:len(stmts)-1]
	pi := 0
	for i := 0; i < st.NumFields(); i++ {
		f := st.Field(i)
		got := e.stmtText(cl.Elts[i])
		sl, isSlice := f.Type().Underlying().(*types.Slice)
		switch {
		case !isSlice:
			if _, isPtr := f.Type().Underlying().(*types.Pointer); isPtr {
				return layoutResult{false, "pointer field " + f.Name() + ": no copy rule"}
			}
			if _, isMap := f.Type().Underlying().(*types.Map); isMap {
				return layoutResult{false, "map field " + f.Name() + ": no copy rule"}
			}
			if got != "rr."+f.Name() {
				return layoutResult{false, fmt.Sprintf("field %s: element is `%s`, expected `rr.%s`", f.Name(), got, f.Name())}
			}
		case isDeepElem(sl.Elem()):
			// F := make([]E, len(rr.F)); for i, e := range rr.F { F[i] = e.copy() }
			if pi+2 > len(pre) {
				return layoutResult{false, "field " + f.Name() + " holds references but is not copied element by element"}
			}
			w1 := fmt.Sprintf("%s := make(%s, len(rr.%s))", f.Name(), e.typeText(f.Type()), f.Name())
			w2 := norm(fmt.Sprintf("for i, e := range rr.%s { %s[i] = e.copy() }", f.Name(), f.Name()))
			if g1, g2 := e.stmtText(pre[pi]), e.stmtText(pre[pi+1]); g1 != w1 || g2 != w2 {
				return layoutResult{false, fmt.Sprintf("field %s: expected `%s; %s`, found `%s; %s`", f.Name(), w1, w2, g1, g2)}
			}
			pi += 2
			if got != f.Name() {
				return layoutResult{false, fmt.Sprintf("field %s: the literal does not use the element-wise copy", f.Name())}
			}
		default:
			if got != "cloneSlice(rr."+f.Name()+")" {
				return layoutResult{false, fmt.Sprintf("field %s is a slice shared with the original: element is `%s`, expected `cloneSlice(rr.%s)`", f.Name(), got, f.Name())}
			}
		}
	}
	if pi != len(pre) {
		return layoutResult{false, "unexpected statements before the return"}
	}
	return layoutResult{true, ""}
}

func (e *Engine) typeText(t types.Type) string {
	return types.TypeString(t, func(p *types.Package) string {
		if p.Path() == dnsPath {
			return ""
		}
		return p.Name()
	})
}

// ---------------------------------------------------------------------------
// isDuplicate

func retFalse(cond string) string { return norm("if " + cond + " { return false }") }

func expectedDup(sf SchemaField, ft types.Type) ([]string, bool) {
	F := sf.GoFields[0]
	switch sf.Codec {
	case "name", "cname":
		return []string{retFalse("!isDuplicateName(r1." + F + ", r2." + F + ")")}, true
	case "a", "aaaa":
		return []string{retFalse("!r1." + F + ".Equal(r2." + F + ")")}, true
	case "txts", "bitmap":
		return []string{retFalse("len(r1." + F + ") != len(r2." + F + ")"),
			norm("for i := 0; i < len(r1." + F + "); i++ { if r1." + F + "[i] != r2." + F + "[i] { return false } }")}, true
	case "names":
		return []string{retFalse("len(r1." + F + ") != len(r2." + F + ")"),
			norm("for i := 0; i < len(r1." + F + "); i++ { if !isDuplicateName(r1." + F + "[i], r2." + F + "[i]) { return false } }")}, true
	case "apl":
		return []string{retFalse("len(r1." + F + ") != len(r2." + F + ")"),
			norm("for i := 0; i < len(r1." + F + "); i++ { if !r1." + F + "[i].equals(&r2." + F + "[i]) { return false } }")}, true
	case "svcparams":
		return []string{retFalse("len(r1." + F + ") != len(r2." + F + ")"), retFalse("!areSVCBPairArraysEqual(r1." + F + ", r2." + F + ")")}, true
	case "gateway":
		H := sf.GoFields[1]
		return []string{norm(fmt.Sprintf("switch r1.%s { case IPSECGatewayIPv4, IPSECGatewayIPv6: if !r1.%s.Equal(r2.%s) { return false } case IPSECGatewayHost: if !isDuplicateName(r1.%s, r2.%s) { return false } }", selExpr(sf.Arg), F, F, H, H))}, true
	case "opts":
		return nil, false
	}
	return []string{retFalse("r1." + F + " != r2." + F)}, true
}

func (e *Engine) checkDupSchema(tname string, fields []SchemaField) layoutResult {
	fd, ok := e.funcBody("(*" + tname + ").isDuplicate")
	if !ok {
		return layoutResult{false, "function not found"}
	}
	stmts := fd.Body.List
	want := []string{
		fmt.Sprintf("r2, ok := _r2.(*%s)", tname),
		retFalse("!ok"),
		"_ = r2",
	}
	for _, sf := range fields {
		w, ok := expectedDup(sf, nil)
		if !ok {
			return layoutResult{false, "no comparison rule for codec " + sf.Codec}
		}
		want = append(want, w...)
	}
	want = append(want, "return true")
	var got []string
	for _, s := range stmts {
		got = append(got, e.stmtText(s))
	}
	for i := 0; i < len(want) || i < len(got); i++ {
		g, w := "<nothing>", "<nothing>"
		if i < len(got) {
			g = got[i]
		}
		if i < len(want) {
			w = want[i]
		}
		if g != w {
			return layoutResult{false, fmt.Sprintf("statement %d is `%s`, the schema requires `%s`", i+1, g, w)}
		}
	}
	return layoutResult{true, ""}
}

// structuralObligations builds the decided obligations of one kind ("len", "copy", "isDuplicate").
func (e *Engine) structuralObligations(kind string) []*Obligation {
	var out []*Obligation
	var names []string
	for n := range e.cs.Schema {
		names = append(names, n)
	}
	sortStrings(names)
	for _, n := range names {
		st := e.cs.Schema[n]
		fields, _ := e.cs.schemaFields(n)
		fname := "(*" + n + ")." + kind
		var r layoutResult
		label := "schema"
		switch kind {
		case "len":
			if st.Alias != "" {
				continue // promoted from the embedded type
			}
			if e.handWritten(fname, "ztypes.go") {
				continue // hand-written: under an ordinary contract instead
			}
			r = e.checkLenSchema(n, fields)
		case "copy":
			label = "deep"
			r = e.checkCopyDeep(n)
		case "isDuplicate":
			if st.Alias != "" {
				// embedding types compare through the embedded record: r1.X.isDuplicate? generated like any other
			}
			if e.handWritten(fname, "zduplicate.go") {
				continue
			}
			if st.Alias != "" {
				fields, _ = e.cs.schemaFields(st.Alias)
			}
			r = e.checkDupSchema(n, fields)
		}
		ob := &Obligation{Fn: fname, Name: fname + "#" + label, Kind: "layout", Solver: "structural matcher (syntax tree of the current source)"}
		ob.Src = fmt.Sprintf("schema %s: %s", n, schemaText(fields))
		ob.Clause = &Clause{Label: label, Src: ob.Src, File: st.File, Line: st.Line}
		if r.ok {
			ob.Status = "proved"
		} else {
			ob.Status = "failed"
			ob.Output = r.msg
			ob.Src += " -- " + r.msg
		}
		if fn := e.funcs[fname]; fn != nil {
			ob.Pos = fn.Pos()
		}
		out = append(out, ob)
	}
	return out
}

// handWritten: the method exists but is not defined in the given generated file.
func (e *Engine) handWritten(fname, genFile string) bool {
	fn := e.funcs[fname]
	if fn == nil {
		return true
	}
	p := e.fset.Position(fn.Pos())
	return !strings.HasSuffix(p.Filename, "/"+genFile)
}

// canonObligations: the type switch of rawSignatureData lower-cases exactly the RDATA domain names RFC 4034
// section 6.2 (as amended by RFC 6840 5.1) lists: for every schema type with [canon] fields there is a case
// `case *T:` whose body is exactly `x.F = CanonicalName(x.F)` for those fields, and no other type is touched.
// RRSIG itself is exempt (an RRSIG RRset is never signed); SIG embeds RRSIG and is listed.
func (e *Engine) canonObligations() []*Obligation {
	fname := "rawSignatureData"
	mk := func(label, src string, r layoutResult, st *SchemaType) *Obligation {
		ob := &Obligation{Fn: fname, Name: fname + "#canon." + label, Kind: "layout", Solver: "structural matcher (syntax tree of the current source)", Src: src}
		ob.Clause = &Clause{Label: "canon." + label, Src: src}
		if st != nil {
			ob.Clause.File, ob.Clause.Line = st.File, st.Line
		}
		if r.ok {
			ob.Status = "proved"
		} else {
			ob.Status = "failed"
			ob.Output = r.msg
			ob.Src += " -- " + r.msg
		}
		if fn := e.funcs[fname]; fn != nil {
			ob.Pos = fn.Pos()
		}
		return ob
	}
	fd, ok := e.funcBody(fname)
	if !ok {
		return []*Obligation{mk("switch", "rawSignatureData canonical RDATA names", layoutResult{false, "function not found"}, nil)}
	}
	var sw *ast.TypeSwitchStmt
	ast.Inspect(fd.Body, func(n ast.Node) bool {
		if s, ok := n.(*ast.TypeSwitchStmt); ok && sw == nil {
			sw = s
		}
		return true
	})
	if sw == nil {
		return []*Obligation{mk("switch", "rawSignatureData canonical RDATA names", layoutResult{false, "no type switch found"}, nil)}
	}
	// the switch must be over the copied record and bind a variable
	bind := ""
	if as, ok := sw.Assign.(*ast.AssignStmt); ok && len(as.Lhs) == 1 {
		bind = e.stmtText(as.Lhs[0])
	}
	cases := map[string][]string{}
	var out []*Obligation
	for _, c := range sw.Body.List {
		cc := c.(*ast.CaseClause)
		if len(cc.List) != 1 {
			if len(cc.List) == 0 && len(cc.Body) == 0 {
				continue
			}
			out = append(out, mk("shape", "rawSignatureData canonical RDATA names", layoutResult{false, "case clause with several types or a default body: " + e.stmtText(cc)}, nil))
			continue
		}
		tn := strings.TrimPrefix(e.stmtText(cc.List[0]), "*")
		var stmts []string
		for _, s := range cc.Body {
			stmts = append(stmts, e.stmtText(s))
		}
		cases[tn] = stmts
	}
	var names []string
	for n := range e.cs.Schema {
		names = append(names, n)
	}
	sortStrings(names)
	seen := map[string]bool{}
	for _, n := range names {
		if n == "RRSIG" {
			continue
		}
		st := e.cs.Schema[n]
		fields, _ := e.cs.schemaFields(n)
		if st.Alias != "" && st.Alias != "RRSIG" {
			// embedding types other than SIG are not in the RFC list (NXT is obsolete and embeds NSEC, whose
			// next name RFC 6840 5.1 says must not be lower-cased)
			if _, has := cases[n]; has {
				out = append(out, mk(n, "schema "+n+" (no canonical names)", layoutResult{false, "type is lower-cased but carries no RFC 4034 6.2 name"}, st))
				seen[n] = true
			}
			continue
		}
		var want []string
		for _, sf := range fields {
			if sf.hasFlag("canon") {
				want = append(want, norm(fmt.Sprintf("%s.%s = CanonicalName(%s.%s)", bind, sf.GoFields[0], bind, sf.GoFields[0])))
			}
		}
		got, has := cases[n]
		seen[n] = true
		if len(want) == 0 {
			if has {
				out = append(out, mk(n, "schema "+n+": "+schemaText(fields), layoutResult{false, "type is lower-cased but carries no RFC 4034 6.2 name"}, st))
			}
			continue
		}
		r := layoutResult{true, ""}
		switch {
		case !has:
			r = layoutResult{false, "no case for *" + n + ": its RDATA names are not lower-cased"}
		case strings.Join(got, "; ") != strings.Join(want, "; "):
			r = layoutResult{false, fmt.Sprintf("case body is `%s`, RFC 4034 6.2 requires `%s`", strings.Join(got, "; "), strings.Join(want, "; "))}
		}
		out = append(out, mk(n, "schema "+n+": "+schemaText(fields), r, st))
	}
	for tn := range cases {
		if !seen[tn] {
			out = append(out, mk(tn, "rawSignatureData case *"+tn, layoutResult{false, "type without a schema is lower-cased"}, nil))
		}
	}
	return out
}

// parseWidthObligations: in the presentation parsers a number read with strconv.ParseUint(tok, base, N) and
// stored after a plain conversion to an M-bit unsigned type must have N == M (N > M silently truncates,
// N < M rejects values the field can hold and String() prints).  One obligation per parser function.
func (e *Engine) parseWidthObligations() []*Obligation {
	var names []string
	for _, n := range e.implsOf("RR.parse") {
		names = append(names, n)
	}
	for _, n := range e.implsOf("SVCBKeyValue.parse") {
		names = append(names, n)
	}
	names = append(names, "(*DNSKEY).parseDNSKEY", "(*DS).parseDS")
	sortStrings(names)
	var out []*Obligation
	for _, n := range names {
		fn := e.funcs[n]
		if fn == nil || len(fn.Blocks) == 0 {
			continue
		}
		if n == "(*TKEY).parse" {
			// TKEY has no presentation format: String() prints a comment line (leading ";") with other fields
			// than parse() reads, so there is no text round trip for the widths to be consistent with
			continue
		}
		var bad []string
		sites := 0
		for _, b := range fn.Blocks {
			for _, in := range b.Instrs {
				c, ok := in.(*ssa.Call)
				if !ok {
					continue
				}
				f, ok := c.Call.Value.(*ssa.Function)
				if !ok || f.String() != "strconv.ParseUint" || len(c.Call.Args) != 3 {
					continue
				}
				bc, ok := c.Call.Args[2].(*ssa.Const)
				if !ok || bc.Value == nil {
					continue
				}
				nbits := int(bc.Int64())
				// the base: every number of a presentation format is decimal (RFC 1035 5.1), except the EUI-48/EUI-64
				// addresses, which are read as hexadecimal (RFC 7043)
				if bb, ok := c.Call.Args[1].(*ssa.Const); ok && bb.Value != nil {
					wantBase := int64(10)
					if n == "(*EUI48).parse" || n == "(*EUI64).parse" {
						wantBase = 16
					}
					sites++
					if bb.Int64() != wantBase {
						bad = append(bad, fmt.Sprintf("line %d: ParseUint(..., base %d, ...), the presentation format is base %d", e.fset.Position(c.Pos()).Line, bb.Int64(), wantBase))
					}
				} else {
					bad = append(bad, fmt.Sprintf("line %d: ParseUint with a base that is not a constant", e.fset.Position(c.Pos()).Line))
				}
				if c.Referrers() == nil {
					continue
				}
				for _, r := range *c.Referrers() {
					ex, ok := r.(*ssa.Extract)
					if !ok || ex.Index != 0 || ex.Referrers() == nil {
						continue
					}
					for _, u := range *ex.Referrers() {
						cv, ok := u.(*ssa.Convert)
						if !ok {
							continue
						}
						mbits, signed, isInt := intBits(cv.Type())
						if !isInt || signed {
							continue
						}
						sites++
						if mbits != nbits && !(nbits == 48 && mbits == 64) {
							bad = append(bad, fmt.Sprintf("line %d: ParseUint(..., %d) converted to %s", e.fset.Position(c.Pos()).Line, nbits, cv.Type()))
						}
					}
				}
			}
		}
		if sites == 0 {
			continue
		}
		ob := &Obligation{Fn: n, Name: n + "#parse.widths", Kind: "layout", Solver: "structural matcher (SSA data flow)", Pos: fn.Pos()}
		ob.Src = fmt.Sprintf("every number parsed in %s is read in base 10 (EUI addresses: 16) with the bit width of the field it is stored in (%d sites)", n, sites)
		ob.Clause = &Clause{Label: "parse.widths", Src: ob.Src}
		if len(bad) == 0 {
			ob.Status = "proved"
		} else {
			ob.Status = "failed"
			ob.Output = strings.Join(bad, "; ")
			ob.Src += " -- " + ob.Output
		}
		out = append(out, ob)
	}
	return out
}

// mnemonicTableObligations: the type and class mnemonic tables are consulted for printing only by Type.String
// and Class.String, which fall back to TYPEnnn / CLASSnnn for code points without a mnemonic; any other reader
// of TypeToString / ClassToString would print an empty field for such a code point.
func (e *Engine) mnemonicTableObligations() []*Obligation {
	allowed := map[string]bool{"(Type).String": true, "(Class).String": true, "PrivateHandle": true, "PrivateHandleRemove": true, "init": true}
	var bad []string
	var names []string
	for n := range e.funcs {
		names = append(names, n)
	}
	sortStrings(names)
	for _, n := range names {
		fn := e.funcs[n]
		if fn == nil || fn.Pkg == nil || fn.Pkg.Pkg.Path() != dnsPath || allowed[n] || strings.HasPrefix(n, "init") {
			continue
		}
		for _, b := range fn.Blocks {
			for _, in := range b.Instrs {
				lk, ok := in.(*ssa.Lookup)
				if !ok {
					continue
				}
				ld, ok := lk.X.(*ssa.UnOp)
				if !ok {
					continue
				}
				g, ok := ld.X.(*ssa.Global)
				if !ok {
					continue
				}
				if g.Name() == "TypeToString" || g.Name() == "ClassToString" {
					bad = append(bad, fmt.Sprintf("%s reads %s at line %d", n, g.Name(), e.fset.Position(lk.Pos()).Line))
				}
			}
		}
	}
	ob := &Obligation{Fn: "(Type).String", Name: "(Type).String#mnemonics.readers", Kind: "layout", Solver: "structural matcher (SSA data flow)"}
	ob.Src = "TypeToString and ClassToString are read only by Type.String and Class.String (and the private-type registry)"
	ob.Clause = &Clause{Label: "mnemonics.readers", Src: ob.Src}
	if fn := e.funcs["(Type).String"]; fn != nil {
		ob.Pos = fn.Pos()
	}
	if len(bad) == 0 {
		ob.Status = "proved"
	} else {
		ob.Status = "failed"
		ob.Output = strings.Join(bad, "; ")
		ob.Src += " -- " + ob.Output
	}
	// every mnemonic in the tables is upper case: all readers upper-case the token before looking it up in the
	// reverse tables, so a mixed-case mnemonic prints but cannot be read back
	var mixed []string
	for _, n := range names {
		fn := e.funcs[n]
		if fn == nil || fn.Pkg == nil || fn.Pkg.Pkg.Path() != dnsPath || !strings.HasPrefix(n, "init") {
			continue
		}
		for _, b := range fn.Blocks {
			for _, in := range b.Instrs {
				mu, ok := in.(*ssa.MapUpdate)
				if !ok {
					continue
				}
				mm, ok := mu.Map.(*ssa.MakeMap)
				if !ok || mm.Referrers() == nil {
					continue
				}
				table := ""
				for _, r := range *mm.Referrers() {
					if st, ok := r.(*ssa.Store); ok {
						if g, ok := st.Addr.(*ssa.Global); ok && (g.Name() == "TypeToString" || g.Name() == "ClassToString") {
							table = g.Name()
						}
					}
				}
				if table == "" {
					continue
				}
				if c, ok := mu.Value.(*ssa.Const); ok && c.Value != nil && c.Value.Kind() == constant.String {
					if v := constant.StringVal(c.Value); v != strings.ToUpper(v) {
						mixed = append(mixed, fmt.Sprintf("%s holds %q", table, v))
					}
				}
			}
		}
	}
	ob2 := &Obligation{Fn: "(Type).String", Name: "(Type).String#mnemonics.upper", Kind: "layout", Solver: "structural matcher (SSA data flow)"}
	ob2.Src = "every mnemonic in TypeToString and ClassToString is upper case (readers upper-case the token before the reverse lookup)"
	ob2.Clause = &Clause{Label: "mnemonics.upper", Src: ob2.Src}
	ob2.Pos = ob.Pos
	if len(mixed) == 0 {
		ob2.Status = "proved"
	} else {
		ob2.Status = "failed"
		ob2.Output = strings.Join(mixed, "; ")
		ob2.Src += " -- " + ob2.Output
	}
	// every table that is turned round for reading (reverseInt8/16/reverseInt in the package initialiser) is
	// injective: two codes with the same mnemonic print alike and only one of them can be read back
	reversed := map[string]bool{}
	type kv struct{ k, v string }
	entries := map[string][]kv{}
	for _, n := range names {
		fn := e.funcs[n]
		if fn == nil || fn.Pkg == nil || fn.Pkg.Pkg.Path() != dnsPath || !strings.HasPrefix(n, "init") {
			continue
		}
		for _, b := range fn.Blocks {
			for _, in := range b.Instrs {
				switch x := in.(type) {
				case *ssa.Call:
					if cal := x.Call.StaticCallee(); cal != nil && strings.HasPrefix(cal.Name(), "reverseInt") && len(x.Call.Args) == 1 {
						if ld, ok := x.Call.Args[0].(*ssa.UnOp); ok {
							if g, ok := ld.X.(*ssa.Global); ok {
								reversed[g.Name()] = true
							}
						}
					}
				case *ssa.MapUpdate:
					mm, ok := x.Map.(*ssa.MakeMap)
					if !ok || mm.Referrers() == nil {
						continue
					}
					for _, r := range *mm.Referrers() {
						if st, ok := r.(*ssa.Store); ok {
							if g, ok := st.Addr.(*ssa.Global); ok {
								kc, ok1 := x.Key.(*ssa.Const)
								vc, ok2 := x.Value.(*ssa.Const)
								if ok1 && ok2 && kc.Value != nil && vc.Value != nil && vc.Value.Kind() == constant.String {
									entries[g.Name()] = append(entries[g.Name()], kv{kc.Value.ExactString(), constant.StringVal(vc.Value)})
								}
							}
						}
					}
				}
			}
		}
	}
	var dups []string
	var tabs []string
	for g := range reversed {
		tabs = append(tabs, g)
	}
	sortStrings(tabs)
	for _, g := range tabs {
		seen := map[string]string{}
		for _, e := range entries[g] {
			if o, ok := seen[e.v]; ok && o != e.k {
				dups = append(dups, fmt.Sprintf("%s maps both %s and %s to %q", g, o, e.k, e.v))
			}
			seen[e.v] = e.k
		}
	}
	ob3 := &Obligation{Fn: "reverseInt16", Name: "reverseInt16#tables.injective", Kind: "layout", Solver: "structural matcher (SSA data flow)"}
	ob3.Src = fmt.Sprintf("the %d code-to-mnemonic tables that are reversed for reading (%s) give no two codes the same mnemonic", len(tabs), strings.Join(tabs, ", "))
	ob3.Clause = &Clause{Label: "tables.injective", Src: ob3.Src}
	if fn := e.funcs["reverseInt16"]; fn != nil {
		ob3.Pos = fn.Pos()
	}
	if len(tabs) < 5 {
		ob3.Status = "failed"
		ob3.Src += " -- fewer reversed tables found than the package has; the matcher no longer recognises the initialiser"
	} else if len(dups) == 0 {
		ob3.Status = "proved"
	} else {
		ob3.Status = "failed"
		ob3.Output = strings.Join(dups, "; ")
		ob3.Src += " -- " + ob3.Output
	}
	// every reader and every registration of a type or class mnemonic goes through strings.ToUpper: keyword case
	// does not matter in a zone file (RFC 1035 5.1), and what a private type registers can be read back
	var raw []string
	sites := 0
	for _, n := range names {
		fn := e.funcs[n]
		if fn == nil || fn.Pkg == nil || fn.Pkg.Pkg.Path() != dnsPath || strings.HasPrefix(n, "init") || n == "(Class).String" {
			continue
		}
		for _, b := range fn.Blocks {
			for _, in := range b.Instrs {
				var m, key ssa.Value
				switch x := in.(type) {
				case *ssa.Lookup:
					m, key = x.X, x.Index
				case *ssa.MapUpdate:
					m, key = x.Map, x.Key
				default:
					continue
				}
				ld, ok := m.(*ssa.UnOp)
				if !ok {
					continue
				}
				g, ok := ld.X.(*ssa.Global)
				if !ok || (g.Name() != "StringToType" && g.Name() != "StringToClass") {
					continue
				}
				sites++
				folded := false
				if c, ok := key.(*ssa.Call); ok {
					if cal := c.Call.StaticCallee(); cal != nil && cal.Name() == "ToUpper" && cal.Pkg != nil && cal.Pkg.Pkg.Path() == "strings" {
						folded = true
					}
				}
				if kc, ok := key.(*ssa.Const); ok && kc.Value != nil && kc.Value.Kind() == constant.String {
					if v := constant.StringVal(kc.Value); v == strings.ToUpper(v) {
						folded = true
					}
				}
				if !folded {
					raw = append(raw, fmt.Sprintf("%s uses %s with a key that is not the result of strings.ToUpper at line %d", n, g.Name(), e.fset.Position(in.Pos()).Line))
				}
			}
		}
	}
	ob4 := &Obligation{Fn: "(Type).String", Name: "(Type).String#mnemonics.folded", Kind: "layout", Solver: "structural matcher (SSA data flow)"}
	ob4.Src = fmt.Sprintf("every lookup in and every registration into StringToType / StringToClass uses an upper-cased key (%d sites)", sites)
	ob4.Clause = &Clause{Label: "mnemonics.folded", Src: ob4.Src}
	ob4.Pos = ob.Pos
	if sites < 8 {
		ob4.Status = "failed"
		ob4.Src += " -- fewer sites found than the package has; the matcher no longer recognises the lookups"
	} else if len(raw) == 0 {
		ob4.Status = "proved"
	} else {
		ob4.Status = "failed"
		ob4.Output = strings.Join(raw, "; ")
		ob4.Src += " -- " + ob4.Output
	}
	return []*Obligation{ob, ob2, ob3, ob4}
}

// mapLiteralEntries: the constant key/value pairs that the package initialiser stores into the package-level map
// variable named g (keys and values rendered as exact constant strings).
func (e *Engine) mapLiteralEntries(g string) map[string]string {
	out := map[string]string{}
	for n, fn := range e.funcs {
		if fn == nil || fn.Pkg == nil || fn.Pkg.Pkg.Path() != dnsPath || !strings.HasPrefix(n, "init") {
			continue
		}
		for _, b := range fn.Blocks {
			for _, in := range b.Instrs {
				x, ok := in.(*ssa.MapUpdate)
				if !ok {
					continue
				}
				mm, ok := x.Map.(*ssa.MakeMap)
				if !ok || mm.Referrers() == nil {
					continue
				}
				for _, r := range *mm.Referrers() {
					if st, ok := r.(*ssa.Store); ok {
						if gl, ok := st.Addr.(*ssa.Global); ok && gl.Name() == g {
							kc, ok1 := x.Key.(*ssa.Const)
							vc, ok2 := x.Value.(*ssa.Const)
							if ok1 && ok2 && kc.Value != nil && vc.Value != nil {
								out[kc.Value.ExactString()] = vc.Value.ExactString()
							}
						}
					}
				}
			}
		}
	}
	return out
}

// algorithmTableObligations: AlgorithmToHash, the table hashFromAlgorithm reads, gives every signing algorithm the
// library supports the digest its RFC names (RFC 3110, 5155, 5702, 6605, 8080; crypto.Hash numbers SHA1 3, SHA256 5,
// SHA384 6, SHA512 7; 0 stands for "signs the message itself").
func (e *Engine) algorithmTableObligations() []*Obligation {
	want := map[string]string{"5": "3", "7": "3", "8": "5", "10": "7", "13": "5", "14": "6", "15": "0"}
	got := e.mapLiteralEntries("AlgorithmToHash")
	var bad []string
	for _, k := range []string{"5", "7", "8", "10", "13", "14", "15"} {
		if got[k] != want[k] {
			bad = append(bad, fmt.Sprintf("algorithm %s: digest %q, want crypto.Hash %s", k, got[k], want[k]))
		}
	}
	ob := &Obligation{Fn: "hashFromAlgorithm", Name: "hashFromAlgorithm#table.algorithms", Kind: "layout", Solver: "structural matcher (SSA data flow)"}
	ob.Src = "AlgorithmToHash maps the signing algorithms 5, 7, 8, 10, 13, 14, 15 to SHA-1, SHA-1, SHA-256, SHA-512, SHA-256, SHA-384 and the identity"
	ob.Clause = &Clause{Label: "table.algorithms", Src: ob.Src}
	if fn := e.funcs["hashFromAlgorithm"]; fn != nil {
		ob.Pos = fn.Pos()
	}
	if len(bad) == 0 {
		ob.Status = "proved"
	} else {
		ob.Status = "failed"
		ob.Output = strings.Join(bad, "; ")
		ob.Src += " -- " + ob.Output
	}
	return []*Obligation{ob}
}

// reversedTableObligations: every reading table StringToX is the mechanical reverse of the printing table XToString
// (`var StringToX = reverseIntN(XToString)` in the package initialiser), so a mnemonic that is printed is a mnemonic
// that is read; a reading table spelled out by hand could drift from the printing one.
func (e *Engine) reversedTableObligations() []*Obligation {
	pairs := [][2]string{{"StringToType", "TypeToString"}, {"StringToClass", "ClassToString"}, {"StringToOpcode", "OpcodeToString"},
		{"StringToRcode", "RcodeToString"}, {"StringToAlgorithm", "AlgorithmToString"}, {"StringToHash", "HashToString"},
		{"StringToCertType", "CertTypeToString"}, {"StringToStatefulType", "StatefulTypeToString"},
		{"StringToExtendedErrorCode", "ExtendedErrorCodeToString"}}
	found := map[string]string{}
	for n, fn := range e.funcs {
		if fn == nil || fn.Pkg == nil || fn.Pkg.Pkg.Path() != dnsPath || !strings.HasPrefix(n, "init") {
			continue
		}
		for _, b := range fn.Blocks {
			for _, in := range b.Instrs {
				st, ok := in.(*ssa.Store)
				if !ok {
					continue
				}
				gl, ok := st.Addr.(*ssa.Global)
				if !ok {
					continue
				}
				c, ok := st.Val.(*ssa.Call)
				if !ok {
					found[gl.Name()] = "not a call"
					continue
				}
				f, ok := c.Call.Value.(*ssa.Function)
				if !ok || !strings.HasPrefix(f.Name(), "reverseInt") || len(c.Call.Args) != 1 {
					found[gl.Name()] = "not a call to reverseInt*"
					continue
				}
				if ld, ok := c.Call.Args[0].(*ssa.UnOp); ok {
					if src, ok := ld.X.(*ssa.Global); ok {
						found[gl.Name()] = src.Name()
					}
				}
			}
		}
	}
	var bad []string
	for _, p := range pairs {
		if found[p[0]] != p[1] {
			got := found[p[0]]
			if got == "" {
				got = "no initialiser found"
			}
			bad = append(bad, fmt.Sprintf("%s is not reverseInt*(%s) (%s)", p[0], p[1], got))
		}
	}
	ob := &Obligation{Fn: "reverseInt16", Name: "reverseInt16#tables.reversed", Kind: "layout", Solver: "structural matcher (SSA data flow)"}
	ob.Src = "every reading table StringToX is initialised as the reverse of its printing table XToString (9 tables)"
	ob.Clause = &Clause{Label: "tables.reversed", Src: ob.Src}
	if fn := e.funcs["reverseInt16"]; fn != nil {
		ob.Pos = fn.Pos()
	}
	if len(bad) == 0 {
		ob.Status = "proved"
	} else {
		ob.Status = "failed"
		ob.Output = strings.Join(bad, "; ")
		ob.Src += " -- " + ob.Output
	}
	return []*Obligation{ob}
}
