package main

import (
	"golang.org/x/tools/go/ssa"
	"fmt"
	"go/constant"
	"go/types"
	"regexp"
	"strings"
)

type Env struct {
	fc        *FnCtx
	lookup    func(name string) (Val, bool)
	oldLookup func(name string) (Val, bool)
	heap      *HeapState
	old       *HeapState
	bound     map[string]Val
	inOld     bool
}

func (env *Env) withBound(name string, v Val) *Env {
	n := *env
	n.bound = map[string]Val{}
	for k, x := range env.bound {
		n.bound[k] = x
	}
	n.bound[name] = v
	return &n
}

func (fc *FnCtx) fail(format string, a ...interface{}) {
	if fc.evalDepth > 0 {
		// raised while evaluating a contract expression against the function's current code
		panic(vcError{fc.name + ": contract expression does not fit the code: " + fmt.Sprintf(format, a...)})
	}
	panic(vcError{fc.name + ": " + fmt.Sprintf(format, a...)})
}

func intVal(s string) Val  { return Val{K: KInt, T: types.Typ[types.Int], C: []string{s}} }
func boolVal(s string) Val { return Val{K: KBool, T: types.Typ[types.Bool], C: []string{s}} }

func (fc *FnCtx) evalBool(e Expr, env *Env) string {
	v := fc.evalExpr(e, env)
	if v.K != KBool {
		fc.fail("boolean expected in contract expression, got kind %d", v.K)
	}
	return v.C[0]
}

func (fc *FnCtx) entryEnv() *Env {
	return &Env{fc: fc, heap: &fc.entry, old: &fc.entry, lookup: fc.paramLookup, oldLookup: fc.paramLookup}
}

// seqOf converts a string or byte-slice value to (arr, off, len) under heap h.
func (fc *FnCtx) seqOf(v Val, h *HeapState) (arr, off, ln string) {
	switch v.K {
	case KStr:
		return v.C[0], v.C[1], v.C[2]
	case KSlice:
		et := v.T.Underlying().(*types.Slice).Elem()
		if kindOf(et) != KInt {
			fc.fail("sequence of non-integer elements")
		}
		hn := "A." + typeName(et) + ".v"
		return fmt.Sprintf("(select %s %s)", fc.getHeapTerm(h, hn, arrOf(arrOf(SInt))), v.C[0]), v.C[1], v.C[2]
	}
	fc.fail("sequence (string or []byte) expected")
	return
}

func (fc *FnCtx) evalExpr(e Expr, env *Env) Val {
	fc.evalDepth++
	defer func() { fc.evalDepth-- }()
	switch x := e.(type) {
	case *ELit:
		switch x.Kind {
		case "int":
			return intVal(x.Val)
		case "bool":
			return boolVal(x.Val)
		case "nil":
			return Val{K: KPtr, T: types.Typ[types.UntypedNil], C: []string{"0"}}
		case "string":
			return fc.constStr(x.Val)
		}
	case *EIdent:
		if v, ok := env.bound[x.Name]; ok {
			return v
		}
		if env.inOld && env.oldLookup != nil {
			if v, ok := env.oldLookup(x.Name); ok {
				return v
			}
		}
		if v, ok := env.lookup(x.Name); ok {
			return v
		}
		if cv, ct, ok := fc.e.lookupConst(x.Name); ok {
			return fc.constToVal(cv, ct)
		}
		// a package-level variable of the function's own package (the mnemonic and constructor tables): its current value
		if fc.fn.Pkg != nil {
			if g, ok := fc.fn.Pkg.Members[x.Name].(*ssa.Global); ok {
				t := derefType(g.Type())
				if _, isMap := t.Underlying().(*types.Map); isMap {
					if _, initOnly := fc.e.initOnlyGlobal(g); initOnly {
						name := mangle("gconst." + g.Pkg.Pkg.Name() + "." + g.Name())
						fc.declare(name, SInt)
						return mkVal(t, []string{name})
					}
				}
				hh := env.heap
				if env.inOld {
					hh = env.old
				}
				return fc.loadLoc(hh, Loc{T: t, kind: "cell", heap: "G." + mangle(g.Pkg.Pkg.Name()+"."+g.Name()), ref: "0"})
			}
		}
		fc.fail("unknown identifier %q in contract", x.Name)
	case *EUn:
		v := fc.evalExpr(x.X, env)
		switch x.Op {
		case "!":
			return boolVal(not(v.S()))
		case "-":
			return intVal("(- " + v.S() + ")")
		}
	case *EBin:
		return fc.evalBin(x, env)
	case *ECond:
		c := fc.evalBool(x.C, env)
		a := fc.evalExpr(x.A, env)
		b := fc.evalExpr(x.B, env)
		if len(a.C) != len(b.C) {
			fc.fail("?: branches of different shape")
		}
		out := make([]string, len(a.C))
		for i := range a.C {
			out[i] = ite(c, a.C[i], b.C[i])
		}
		return Val{K: a.K, T: a.T, C: out}
	case *EQuant:
		lo := fc.evalExpr(x.Lo, env).S()
		hi := fc.evalExpr(x.Hi, env).S()
		fc.nfresh++
		qv := fmt.Sprintf("%s!q%d", mangle(x.Var), fc.nfresh)
		fc.inQuant++
		body := fc.evalBool(x.Body, env.withBound(x.Var, intVal(qv)))
		fc.inQuant--
		rng := fmt.Sprintf("(and (<= %s %s) (< %s %s))", lo, qv, qv, hi)
		if x.Forall {
			return boolVal(fmt.Sprintf("(forall ((%s Int)) (=> %s %s))", qv, rng, body))
		}
		return boolVal(fmt.Sprintf("(exists ((%s Int)) (and %s %s))", qv, rng, body))
	case *EIndex:
		xv := fc.evalExpr(x.X, env)
		iv := fc.evalExpr(x.I, env).S()
		h := env.heap
		if env.inOld {
			h = env.old
		}
		switch xv.K {
		case KStr:
			r := Val{K: KInt, T: types.Typ[types.Uint8], C: []string{fmt.Sprintf("(select %s (+ %s %s))", xv.C[0], xv.C[1], iv)}}
			if fc.inQuant == 0 {
				fc.assumeHere(fc.typeInv(r)) // an octet
			}
			return r
		case KSlice:
			et := xv.T.Underlying().(*types.Slice).Elem()
			l := Loc{T: et, kind: "elem", heap: "A." + typeName(et), ref: xv.C[0], idx: fmt.Sprintf("(+ %s %s)", xv.C[1], iv)}
			r := fc.loadLoc(h, l)
			if fc.inQuant == 0 {
				// what memory holds has its type's range (the same fact a load in the code gets)
				if ti := fc.typeInv(r); ti != "" && ti != "true" {
					fc.assumeHere(ti)
				}
			}
			return r
		}
		fc.fail("cannot index value of kind %d", xv.K)
	case *ESlice:
		xv := fc.evalExpr(x.X, env)
		lo := "0"
		if x.Lo != nil {
			lo = fc.evalExpr(x.Lo, env).S()
		}
		switch xv.K {
		case KStr:
			hi := xv.C[2]
			if x.Hi != nil {
				hi = fc.evalExpr(x.Hi, env).S()
			}
			return Val{K: KStr, T: xv.T, C: []string{xv.C[0], fmt.Sprintf("(+ %s %s)", xv.C[1], lo), fmt.Sprintf("(- %s %s)", hi, lo)}}
		case KSlice:
			hi := xv.C[2]
			if x.Hi != nil {
				hi = fc.evalExpr(x.Hi, env).S()
			}
			return Val{K: KSlice, T: xv.T, C: []string{xv.C[0], fmt.Sprintf("(+ %s %s)", xv.C[1], lo), fmt.Sprintf("(- %s %s)", hi, lo), fmt.Sprintf("(- %s %s)", xv.C[3], lo)}}
		}
		fc.fail("cannot slice value of kind %d", xv.K)
	case *EField:
		// pkg.Name: a package-level variable of a package the function's package imports (base64.StdEncoding)
		if id, ok := x.X.(*EIdent); ok && fc.fn.Pkg != nil {
			if _, local := env.lookup(id.Name); !local {
				for _, imp := range fc.fn.Pkg.Pkg.Imports() {
					if imp.Name() != id.Name {
						continue
					}
					if sp := fc.e.prog.Package(imp); sp != nil {
						if g, ok := sp.Members[x.F].(*ssa.Global); ok {
							t := derefType(g.Type())
							l := Loc{T: t, kind: "cell", heap: "G." + mangle(g.Pkg.Pkg.Name()+"."+g.Name()), ref: "0"}
							hh := env.heap
							if env.inOld {
								hh = env.old
							}
							return fc.loadLoc(hh, l)
						}
					}
				}
			}
		}
		xv := fc.evalExpr(x.X, env)
		h := env.heap
		if env.inOld {
			h = env.old
		}
		return fc.fieldOf(xv, x.F, h)
	case *ECall:
		return fc.evalCall(x, env)
	}
	fc.fail("unsupported contract expression %T", e)
	return Val{}
}

func (fc *FnCtx) constToVal(cv constant.Value, ct types.Type) Val {
	switch cv.Kind() {
	case constant.Bool:
		if constant.BoolVal(cv) {
			return boolVal("true")
		}
		return boolVal("false")
	case constant.String:
		return fc.constStr(constant.StringVal(cv))
	case constant.Int:
		s := cv.ExactString()
		if strings.HasPrefix(s, "-") {
			s = "(- " + s[1:] + ")"
		}
		return Val{K: KInt, T: ct, C: []string{s}}
	}
	fc.fail("unsupported constant kind")
	return Val{}
}

func (fc *FnCtx) fieldOf(xv Val, f string, h *HeapState) Val {
	switch xv.K {
	case KPtr:
		st := derefType(xv.T)
		s, ok := st.Underlying().(*types.Struct)
		if !ok {
			fc.fail("field %s of non-struct pointer %v", f, xv.T)
		}
		for i := 0; i < s.NumFields(); i++ {
			if s.Field(i).Name() == f {
				l := fc.fieldLoc(xv.C[0], st, i)
				if _, isStruct := l.T.Underlying().(*types.Struct); isStruct {
					// embedded struct: return a pointer to it so that further field selections work
					sub := Val{K: KPtr, T: types.NewPointer(l.T), C: []string{l.ref}}
					if !fc.isAllocConst(xv.C[0]) && fc.inQuant == 0 {
						// a part of an object that is not one of this function's unescaped locals is none of them either
						fc.noAliasLocal(sub)
					}
					return sub
				}
				lv := fc.loadLoc(h, l)
				if fc.inQuant == 0 {
					// (side facts are stated outside quantifiers only: inside, the terms mention the bound variable)
					if ti := fc.typeInv(lv); ti != "" && ti != "true" {
						// whatever the heap holds at a typed location is a well-formed value of that type
						fc.assumeHere(ti)
					}
					switch lv.K {
					case KPtr, KSlice, KIface:
						// an address found in the heap is never that of a local whose address was not handed out
						fc.noAliasLocal(lv)
					}
				}
				return lv
			}
		}
		// promoted field through embedded struct
		for i := 0; i < s.NumFields(); i++ {
			if s.Field(i).Embedded() {
				if _, ok := s.Field(i).Type().Underlying().(*types.Struct); ok {
					inner := Val{K: KPtr, T: types.NewPointer(s.Field(i).Type()), C: []string{fc.subRef(st, i, xv.C[0])}}
					if hasField(s.Field(i).Type(), f) {
						return fc.fieldOf(inner, f, h)
					}
				}
			}
		}
		fc.fail("no field %s in %v", f, st)
	case KStruct:
		s := xv.T.Underlying().(*types.Struct)
		for i := 0; i < s.NumFields(); i++ {
			if s.Field(i).Name() == f {
				lo, hi, ft := fieldRange(xv.T, i)
				return mkVal(ft, xv.C[lo:hi])
			}
		}
		for i := 0; i < s.NumFields(); i++ {
			if s.Field(i).Embedded() && hasField(s.Field(i).Type(), f) {
				lo, hi, ft := fieldRange(xv.T, i)
				return fc.fieldOf(mkVal(ft, xv.C[lo:hi]), f, h)
			}
		}
		fc.fail("no field %s in %v", f, xv.T)
	}
	fc.fail("field selection .%s on value of kind %d", f, xv.K)
	return Val{}
}

func hasField(t types.Type, f string) bool {
	s, ok := t.Underlying().(*types.Struct)
	if !ok {
		return false
	}
	for i := 0; i < s.NumFields(); i++ {
		if s.Field(i).Name() == f {
			return true
		}
		if s.Field(i).Embedded() && hasField(s.Field(i).Type(), f) {
			return true
		}
	}
	return false
}

func (fc *FnCtx) evalBin(x *EBin, env *Env) Val {
	switch x.Op {
	case "&&":
		return boolVal(and(fc.evalBool(x.L, env), fc.evalBool(x.R, env)))
	case "||":
		return boolVal(or(fc.evalBool(x.L, env), fc.evalBool(x.R, env)))
	case "==>":
		l := fc.evalBool(x.L, env)
		if l == "false" { // a statically false guard (intelems of a non-integer instance): the conclusion need not fit the instance
			return boolVal("true")
		}
		return boolVal(implies(l, fc.evalBool(x.R, env)))
	case "<==>":
		return boolVal(fmt.Sprintf("(= %s %s)", fc.evalBool(x.L, env), fc.evalBool(x.R, env)))
	}
	l := fc.evalExpr(x.L, env)
	r := fc.evalExpr(x.R, env)
	switch x.Op {
	case "==", "!=":
		eq := fc.valEq(l, r, env)
		if x.Op == "!=" {
			return boolVal(not(eq))
		}
		return boolVal(eq)
	case "<", "<=", ">", ">=":
		return boolVal(fmt.Sprintf("(%s %s %s)", x.Op, l.S(), r.S()))
	case "+", "-", "*":
		return intVal(fmt.Sprintf("(%s %s %s)", x.Op, l.S(), r.S()))
	case "/":
		return intVal(fc.goDiv(l.S(), r.S()))
	case "%":
		return intVal(fc.goRem(l.S(), r.S()))
	case "<<":
		return intVal(fc.shiftLeft(l.S(), r.S()))
	case ">>":
		return intVal(fc.shiftRight(l.S(), r.S()))
	case "&":
		return intVal(fc.bitAnd(l.S(), r.S()))
	case "|":
		return intVal(fc.bitOr(l.S(), r.S()))
	case "^":
		return intVal(fc.bitXor(l.S(), r.S()))
	case "&^":
		return intVal(fmt.Sprintf("(- %s %s)", l.S(), fc.bitAnd(l.S(), r.S())))
	}
	fc.fail("unsupported operator %s", x.Op)
	return Val{}
}

// valEq: equality of two values of the same shape (strings by content).
func (fc *FnCtx) valEq(l, r Val, env *Env) string {
	if l.K == KStr && r.K == KStr {
		return fc.strEq(l, r)
	}
	if l.K == KIface && r.K == KPtr && len(r.C) == 1 && r.C[0] == "0" {
		return fmt.Sprintf("(= %s 0)", l.C[0])
	}
	if r.K == KIface && l.K == KPtr && len(l.C) == 1 && l.C[0] == "0" {
		return fmt.Sprintf("(= %s 0)", r.C[0])
	}
	if l.K == KSlice && len(r.C) == 1 && r.C[0] == "0" {
		return fmt.Sprintf("(= %s 0)", l.C[0])
	}
	if r.K == KSlice && len(l.C) == 1 && l.C[0] == "0" {
		return fmt.Sprintf("(= %s 0)", r.C[0])
	}
	if len(l.C) != len(r.C) {
		fc.fail("== on values of different shape (%v vs %v)", l.T, r.T)
	}
	var parts []string
	for i := range l.C {
		parts = append(parts, fmt.Sprintf("(= %s %s)", l.C[i], r.C[i]))
	}
	return and(parts...)
}

func isConstArr(a string) bool { return strings.HasPrefix(a, "str.") }

func (fc *FnCtx) strEq(l, r Val) string {
	// constant-length sides expand to byte comparisons
	for _, p := range [][2]Val{{l, r}, {r, l}} {
		a, b := p[0], p[1]
		if isConstArr(a.C[0]) && a.C[1] == "0" {
			var n int
			fmt.Sscan(a.C[2], &n)
			if n <= 64 {
				parts := []string{fmt.Sprintf("(= %s %d)", b.C[2], n)}
				for i := 0; i < n; i++ {
					parts = append(parts, fmt.Sprintf("(= (select %s (+ %s %d)) (select %s %d))", b.C[0], b.C[1], i, a.C[0], i))
				}
				return and(parts...)
			}
		}
	}
	// content equality is named by an uninterpreted predicate with its defining axiom, so that the same
	// comparison is the same term wherever it occurs (symmetric: operands are ordered)
	a, b := l, r
	if strings.Join(a.C, "|") > strings.Join(b.C, "|") {
		a, b = b, a
	}
	fc.declareFun("streq", fmt.Sprintf("(%s Int Int %s Int Int) Bool", SArr, SArr))
	term := fmt.Sprintf("(streq %s %s %s %s %s %s)", a.C[0], a.C[1], a.C[2], b.C[0], b.C[1], b.C[2])
	if fc.streqSeen == nil {
		fc.streqSeen = map[string]bool{}
	}
	if !fc.streqSeen[term] {
		fc.streqSeen[term] = true
		fc.nfresh++
		q := fmt.Sprintf("k!q%d", fc.nfresh)
		fc.assertGlobal(fmt.Sprintf("(= %s (and (= %s %s) (forall ((%s Int)) (=> (and (<= 0 %s) (< %s %s)) (= (select %s (+ %s %s)) (select %s (+ %s %s)))))))",
			term, a.C[2], b.C[2], q, q, q, a.C[2], a.C[0], a.C[1], q, b.C[0], b.C[1], q))
	}
	return term
}

// ---------------------------------------------------------------------------
// calls inside contract expressions: builtins and spec functions

func (fc *FnCtx) evalCall(x *ECall, env *Env) Val {
	h := env.heap
	if env.inOld {
		h = env.old
	}
	switch x.Fn {
	case "old":
		n := *env
		n.inOld = true
		return fc.evalExpr(x.Args[0], &n)
	case "len":
		v := fc.evalExpr(x.Args[0], env)
		switch v.K {
		case KStr, KSlice:
			return intVal(v.C[2])
		}
		if v.T != nil {
			if _, isMap := v.T.Underlying().(*types.Map); isMap {
				h := env.heap
				if env.inOld {
					h = env.old
				}
				return intVal(fc.mapLen(h, v.T, v.S()))
			}
		}
		fc.fail("len of kind %d", v.K)
	case "cap":
		v := fc.evalExpr(x.Args[0], env)
		if v.K == KSlice {
			return intVal(v.C[3])
		}
		fc.fail("cap of kind %d", v.K)
	case "int", "uint8", "uint16", "uint32", "uint64", "byte", "uint", "int64", "int32":
		v := fc.evalExpr(x.Args[0], env)
		var bt types.Type
		for _, b := range types.Typ {
			if b.Name() == x.Fn {
				bt = b
			}
		}
		if x.Fn == "byte" {
			bt = types.Typ[types.Uint8]
		}
		return Val{K: KInt, T: bt, C: []string{wrap(bt, v.S())}}
	case "min":
		a, b := fc.evalExpr(x.Args[0], env).S(), fc.evalExpr(x.Args[1], env).S()
		return intVal(ite(fmt.Sprintf("(<= %s %s)", a, b), a, b))
	case "max":
		a, b := fc.evalExpr(x.Args[0], env).S(), fc.evalExpr(x.Args[1], env).S()
		return intVal(ite(fmt.Sprintf("(>= %s %s)", a, b), a, b))
	case "istype":
		// istype(x, T): dynamic type of interface value x is T
		v := fc.evalExpr(x.Args[0], env)
		id, ok := x.Args[1].(*EIdent)
		name := ""
		if ok {
			name = id.Name
		} else if u, ok := x.Args[1].(*EUn); ok {
			_ = u
		}
		t := fc.e.lookupType(name)
		if t == nil {
			fc.fail("istype: unknown type %q", name)
		}
		return boolVal(fmt.Sprintf("(= %s %d)", v.C[0], fc.e.typeTag(t)))
	case "isptrtype":
		v := fc.evalExpr(x.Args[0], env)
		id, _ := x.Args[1].(*EIdent)
		t := fc.e.lookupType("*" + id.Name)
		if t == nil {
			fc.fail("isptrtype: unknown type %q", id.Name)
		}
		return boolVal(fmt.Sprintf("(= %s %d)", v.C[0], fc.e.typeTag(t)))
	case "hdr":
		// hdr(x): pointer to the RR_Header of a record (interface value or pointer to a record struct)
		v := fc.evalExpr(x.Args[0], env)
		fc.e.checkHeaderIdentity()
		ht := types.NewPointer(fc.e.lookupType("RR_Header"))
		switch v.K {
		case KIface:
			return Val{K: KPtr, T: ht, C: []string{v.C[1]}}
		case KPtr:
			return Val{K: KPtr, T: ht, C: []string{v.C[0]}}
		}
		fc.fail("hdr of kind %d", v.K)
	case "typeofcode":
		// typeofcode(x, c): the interface value x has the dynamic type the record schema gives the type code c (no
		// constraint when c is not the code of a schema type)
		v := fc.evalExpr(x.Args[0], env)
		if v.K != KIface {
			fc.fail("typeofcode: first argument must be an interface value")
		}
		return boolVal(fc.e.typeOfCode(v.C[0], fc.evalExpr(x.Args[1], env).S()))
	case "intelems":
		// intelems(s): static - the elements of slice s are of an integer type (used by contracts of generic functions
		// whose element-wise clauses only make sense for scalar instances)
		v := fc.evalExpr(x.Args[0], env)
		if v.T != nil {
			if sl, ok := v.T.Underlying().(*types.Slice); ok {
				if b, ok := sl.Elem().Underlying().(*types.Basic); ok && b.Info()&types.IsInteger != 0 {
					return boolVal("true")
				}
			}
		}
		return boolVal("false")
	case "sliceoff":
		// sliceoff(x): offset of slice/string x inside its backing array
		v := fc.evalExpr(x.Args[0], env)
		if v.K != KSlice && v.K != KStr {
			fc.fail("sliceoff of kind %d", v.K)
		}
		return intVal(v.C[1])
	case "ghost":
		// ghost(x, "name"): the ghost integer `name` attached to the object x designates (x: a pointer, or a local
		// variable whose address is taken - then the variable itself).  Ghost state lives in the heap
		// G.<type>.<name>; only contracts read and constrain it.
		lit, ok := x.Args[1].(*ELit)
		if !ok || lit.Kind != "string" {
			fc.fail("ghost(x, \"name\")")
		}
		var ref string
		var tn string
		if id, isId := x.Args[0].(*EIdent); isId {
			if a, at := fc.addrOfVar(id.Name); a != "" {
				ref, tn = a, typeName(at)
			}
		}
		if ref == "" {
			v := fc.evalExpr(x.Args[0], env)
			if v.K != KPtr {
				fc.fail("ghost: first argument must be a pointer or an address-taken variable")
			}
			ref, tn = v.C[0], typeName(derefType(v.T))
		}
		hn := "G." + tn + "." + lit.Val
		if d, ok := fc.e.cs.GhostField[tn+"."+lit.Val]; ok {
			hn = d
		}
		return intVal(fmt.Sprintf("(select %s %s)", fc.getHeapTerm(h, hn, arrOf(SInt)), ref))
	case "box":
		// box(x): x converted to an interface value (as passed to a parameter of interface type)
		v := fc.evalExpr(x.Args[0], env)
		if v.T == nil {
			fc.fail("box: value of unknown type")
		}
		r := fc.makeIface(v.T, v)
		r.T = types.NewInterfaceType(nil, nil)
		return r
	case "funcval":
		// funcval("pkg.F"): the function value F (as passed to a higher-order function)
		lit, ok := x.Args[0].(*ELit)
		if !ok || lit.Kind != "string" {
			fc.fail("funcval expects a function name string")
		}
		name := mangle("func." + lit.Val)
		fc.declare(name, SInt)
		return Val{K: KPtr, T: types.NewSignatureType(nil, nil, nil, nil, nil, false), C: []string{name}}
	case "sends":
		// sends(): the number of channel sends executed on the path leading here
		return intVal(fc.getHeapTerm(h, "$sends", SInt))
	case "called":
		// called("F"): a call to F was executed on the path leading here
		lit, ok := x.Args[0].(*ELit)
		if !ok || lit.Kind != "string" {
			fc.fail("called expects a function name string")
		}
		if _, ok := fc.heapSort["$called."+lit.Val]; !ok {
			fc.fail("unknown identifier called(%s)", lit.Val)
		}
		return boolVal(fc.getHeapTerm(h, "$called."+lit.Val, SBool))
	case "callarg":
		// callarg("F", k): the k-th argument of the latest call to F that dominates this point
		lit, ok := x.Args[0].(*ELit)
		if !ok || lit.Kind != "string" || len(x.Args) != 2 {
			fc.fail("callarg expects (function name string, index)")
		}
		il, ok := x.Args[1].(*ELit)
		if !ok || il.Kind != "int" {
			fc.fail("callarg(name, k): k must be a literal")
		}
		var k int
		fmt.Sscan(il.Val, &k)
		v, found := fc.callArg(lit.Val, k)
		if !found {
			fc.fail("unknown identifier callarg(%s)", lit.Val)
		}
		return v
	case "det":
		// det("F", args...): the first result the deterministic function F returns for these arguments in the
		// heap of the evaluation state (old(det(...)) = in the pre-state)
		lit, ok := x.Args[0].(*ELit)
		if !ok || lit.Kind != "string" {
			fc.fail("det expects a function name string")
		}
		dc := fc.e.contractByName(lit.Val)
		if dc == nil || !dc.Deterministic {
			fc.fail("det(%s): no contract declaring the function deterministic", lit.Val)
		}
		var args []Val
		for _, a := range x.Args[1:] {
			args = append(args, fc.evalExpr(a, env))
		}
		return intVal(fc.detApp(dc.Name, 0, SInt, args, h))
	case "callres":
		// callres("F"): the result of the latest call to function F that dominates this point
		lit, ok := x.Args[0].(*ELit)
		if !ok || lit.Kind != "string" {
			fc.fail("callres expects a function name string")
		}
		v, found := fc.callResult(lit.Val)
		if !found {
			// no dominating call: the latest call on the current path (see called("F"))
			v, found = fc.pathCallRes(lit.Val, h)
		}
		if !found {
			fc.fail("unknown identifier callres(%s)", lit.Val)
		}
		if len(x.Args) > 1 {
			il, ok := x.Args[1].(*ELit)
			if !ok || il.Kind != "int" || v.K != KTuple {
				fc.fail("callres(name, k): k must be a literal index into a tuple result")
			}
			var k int
			fmt.Sscan(il.Val, &k)
			lo, hi, ft := fieldRange(v.T, k)
			return mkVal(ft, v.C[lo:hi])
		}
		return v
	case "onlywrites":
		// onlywrites(b, lo, hi): compared with the pre-state, the call changed at most b[lo:hi) in the octet
		// heap (every other cell of b's backing array and every other byte array is unchanged)
		b := fc.evalExpr(x.Args[0], env)
		lo := fc.evalExpr(x.Args[1], env).S()
		hi := fc.evalExpr(x.Args[2], env).S()
		if b.K != KSlice {
			fc.fail("onlywrites expects a slice")
		}
		et := b.T.Underlying().(*types.Slice).Elem()
		hn := "A." + typeName(et) + ".v"
		hs := arrOf(arrOf(SInt))
		an := fc.getHeapTerm(env.heap, hn, hs)
		ao := fc.getHeapTerm(env.old, hn, hs)
		fc.nfresh++
		j := fmt.Sprintf("j!q%d", fc.nfresh)
		fc.nfresh++
		r := fmt.Sprintf("r!q%d", fc.nfresh)
		return boolVal(fmt.Sprintf("(and (forall ((%s Int)) (! (=> (or (< %s (+ %s %s)) (>= %s (+ %s %s))) (= (select (select %s %s) %s) (select (select %s %s) %s))) :pattern ((select (select %s %s) %s)))) (forall ((%s Int)) (! (=> (not (= %s %s)) (= (select %s %s) (select %s %s))) :pattern ((select %s %s)))))",
			j, j, b.C[1], lo, j, b.C[1], hi, an, b.C[0], j, ao, b.C[0], j, an, b.C[0], j,
			r, r, b.C[0], an, r, ao, r, an, r))
	case "maphas", "mapget":
		// maphas(m, k) / mapget(m, k): presence / value of the entry stored under exactly the key value k
		mv := fc.evalExpr(x.Args[0], env)
		kv := fc.evalExpr(x.Args[1], env)
		if _, ok := mv.T.Underlying().(*types.Map); !ok {
			fc.fail("%s expects a map", x.Fn)
		}
		if x.Fn == "maphas" {
			return boolVal(fc.mapHas(h, mv.T, mv.S(), kv))
		}
		return fc.mapGet(h, mv.T, mv.S(), kv)
	case "typeof":
		// typeof(x): dynamic type tag of an interface value, or the static type of a non-interface value
		v := fc.evalExpr(x.Args[0], env)
		if v.K == KIface {
			return intVal(v.C[0])
		}
		return intVal(fmt.Sprint(fc.e.typeTag(v.T)))
	case "asptr":
		// asptr(x, T): the *T held by interface value x (meaningful when istype holds)
		v := fc.evalExpr(x.Args[0], env)
		id, ok := x.Args[1].(*EIdent)
		if !ok || v.K != KIface {
			fc.fail("asptr(x, T) expects an interface value and a type name")
		}
		t := fc.e.lookupType("*" + id.Name)
		if t == nil {
			fc.fail("asptr: unknown type %q", id.Name)
		}
		return Val{K: KPtr, T: t, C: []string{v.C[1]}}
	case "strlt":
		// strlt(a, b): a sorts before b (octet-wise lexicographic order, as Go's < on strings)
		a := fc.evalExpr(x.Args[0], env)
		b := fc.evalExpr(x.Args[1], env)
		if a.K != KStr || b.K != KStr {
			fc.fail("strlt expects strings")
		}
		return boolVal(fmt.Sprintf("(< %s 0)", fc.strCmp(a, b)))
	case "same":
		// same(x, y): identical values (component-wise), e.g. the very same string, not just equal contents
		a := fc.evalExpr(x.Args[0], env)
		b := fc.evalExpr(x.Args[1], env)
		if len(a.C) != len(b.C) {
			fc.fail("same: different shapes")
		}
		var parts []string
		for i := range a.C {
			parts = append(parts, fmt.Sprintf("(= %s %s)", a.C[i], b.C[i]))
		}
		return boolVal(and(parts...))
	case "issub":
		// issub(x, s): string x is physically a substring of s
		x1 := fc.evalExpr(x.Args[0], env)
		s1 := fc.evalExpr(x.Args[1], env)
		if x1.K != KStr || s1.K != KStr {
			fc.fail("issub expects strings")
		}
		return boolVal(fmt.Sprintf("(and (= %s %s) (<= %s %s) (<= (+ %s %s) (+ %s %s)))", x1.C[0], s1.C[0], s1.C[1], x1.C[1], x1.C[1], x1.C[2], s1.C[1], s1.C[2]))
	case "start":
		// start(x, s): index in s at which the substring x begins
		x1 := fc.evalExpr(x.Args[0], env)
		s1 := fc.evalExpr(x.Args[1], env)
		if x1.K != KStr || s1.K != KStr {
			fc.fail("start expects strings")
		}
		return intVal(fmt.Sprintf("(- %s %s)", x1.C[1], s1.C[1]))
	case "ref":
		// ref(x): allocation reference of a slice / pointer / interface payload
		v := fc.evalExpr(x.Args[0], env)
		switch v.K {
		case KSlice, KPtr:
			return intVal(v.C[0])
		case KIface:
			return intVal(v.C[1])
		}
		fc.fail("ref of kind %d", v.K)
	case "fresh":
		// fresh(x): x was allocated during this call (or is nil)
		v := fc.evalExpr(x.Args[0], env)
		var r string
		switch v.K {
		case KSlice, KPtr:
			r = v.C[0]
		case KIface:
			r = v.C[1]
		default:
			fc.fail("fresh of kind %d", v.K)
		}
		fc.declare("allocBase", SInt)
		return boolVal(fmt.Sprintf("(or (= %s 0) (>= %s allocBase))", r, r))
	}
	sp := fc.e.cs.Specs[x.Fn]
	if sp == nil {
		fc.fail("unknown function %q in contract expression", x.Fn)
	}
	if len(sp.Params) != len(x.Args) {
		fc.fail("spec %s: %d args expected", sp.Name, len(sp.Params))
	}
	fc.useSpec(sp.Name)
	var args []string
	for i, p := range sp.Params {
		v := fc.evalExpr(x.Args[i], env)
		switch p.Type {
		case "seq", "string":
			a, o, l := fc.seqOf(v, h)
			args = append(args, a, o, l)
		default:
			args = append(args, v.S())
		}
	}
	term := "(" + specSym(sp.Name) + " " + strings.Join(args, " ") + ")"
	if sp.Ret == "bool" {
		return boolVal(term)
	}
	return intVal(term)
}

func specSym(n string) string { return "spec." + mangle(n) }

func (fc *FnCtx) useSpec(name string) {
	if fc.specsUsed[name] {
		return
	}
	fc.specsUsed[name] = true
	// transitively mark specs used in the body
	sp := fc.e.cs.Specs[name]
	if sp != nil && sp.Body != nil {
		walkExpr(sp.Body, func(e Expr) {
			if c, ok := e.(*ECall); ok {
				if _, isSpec := fc.e.cs.Specs[c.Fn]; isSpec {
					fc.useSpec(c.Fn)
				}
			}
		})
	}
}

func walkExpr(e Expr, f func(Expr)) {
	if e == nil {
		return
	}
	f(e)
	switch x := e.(type) {
	case *EUn:
		walkExpr(x.X, f)
	case *EBin:
		walkExpr(x.L, f)
		walkExpr(x.R, f)
	case *ECond:
		walkExpr(x.C, f)
		walkExpr(x.A, f)
		walkExpr(x.B, f)
	case *EQuant:
		walkExpr(x.Lo, f)
		walkExpr(x.Hi, f)
		walkExpr(x.Body, f)
	case *EIndex:
		walkExpr(x.X, f)
		walkExpr(x.I, f)
	case *ESlice:
		walkExpr(x.X, f)
		if x.Lo != nil {
			walkExpr(x.Lo, f)
		}
		if x.Hi != nil {
			walkExpr(x.Hi, f)
		}
	case *EField:
		walkExpr(x.X, f)
	case *ECall:
		for _, a := range x.Args {
			walkExpr(a, f)
		}
	}
}

// renderSpecs evaluates the bodies of all used spec functions once (after VC generation).
type renderedSpec struct {
	name, sig, ret, body, params, call string
	deps []string
}

func (fc *FnCtx) renderSpecs() {
	fc.rspecs = map[string]*renderedSpec{}
	// evaluating bodies may pull in further specs: iterate to a fixpoint
	for {
		progress := false
		for _, n := range fc.e.cs.SpecOrder {
			if !fc.specsUsed[n] || fc.rspecs[n] != nil {
				continue
			}
			progress = true
			sp := fc.e.cs.Specs[n]
			var ps, psig, pcall []string
			bound := map[string]Val{}
			for _, p := range sp.Params {
				switch p.Type {
				case "seq", "string":
					a, o, l := "p."+p.Name+".arr", "p."+p.Name+".off", "p."+p.Name+".len"
					ps = append(ps, fmt.Sprintf("(%s %s) (%s Int) (%s Int)", a, SArr, o, l))
					psig = append(psig, SArr, SInt, SInt)
					pcall = append(pcall, a, o, l)
					bound[p.Name] = Val{K: KStr, T: types.Typ[types.String], C: []string{a, o, l}}
				case "bool":
					ps = append(ps, fmt.Sprintf("(p.%s Bool)", p.Name))
					psig = append(psig, SBool)
					pcall = append(pcall, "p."+p.Name)
					bound[p.Name] = boolVal("p." + p.Name)
				default:
					ps = append(ps, fmt.Sprintf("(p.%s Int)", p.Name))
					psig = append(psig, SInt)
					pcall = append(pcall, "p."+p.Name)
					bound[p.Name] = intVal("p." + p.Name)
				}
			}
			ret := SInt
			if sp.Ret == "bool" {
				ret = SBool
			}
			r := &renderedSpec{name: n, sig: strings.Join(psig, " "), ret: ret, params: strings.Join(ps, " "), call: strings.Join(pcall, " ")}
			if !sp.Uninter && !fc.opaque(n) {
				env := &Env{fc: fc, heap: &fc.entry, old: &fc.entry, bound: bound,
					lookup: func(string) (Val, bool) { return Val{}, false }}
				v := fc.evalExpr(sp.Body, env)
				r.body = v.S()
				for _, m := range specSymRe.FindAllString(r.body, -1) {
					r.deps = append(r.deps, m)
				}
			}
			fc.rspecs[n] = r
		}
		if !progress {
			break
		}
	}
}

var specSymRe = regexp.MustCompile(`spec\.[A-Za-z0-9_.]+`)

// specText renders the definitions of the spec functions whose symbols occur in `text` (transitively).
// encodings of the spec functions in a query: recursive definitions (define-funs-rec), uninterpreted functions with
// unfolding axioms (triggered on the application), or recursive functions left uninterpreted (encOpaque: sound for
// proving - fewer facts - and the one that lets the solvers finish when a quantified invariant speaks about a
// recursive position function whose unfolding is not needed for the step at hand)
const (
	encRec = iota
	encAx
	encOpaque
	encLean
)

func (fc *FnCtx) specText(text string, enc int) []string {
	need := map[string]bool{}
	var work []string
	for _, m := range specSymRe.FindAllString(text, -1) {
		if !need[m] {
			need[m] = true
			work = append(work, m)
		}
	}
	bySym := map[string]*renderedSpec{}
	for n, r := range fc.rspecs {
		bySym[specSym(n)] = r
	}
	for len(work) > 0 {
		x := work[len(work)-1]
		work = work[:len(work)-1]
		if r := bySym[x]; r != nil {
			for _, d := range r.deps {
				if !need[d] {
					need[d] = true
					work = append(work, d)
				}
			}
		}
	}
	var rs []*renderedSpec
	for _, n := range fc.e.cs.SpecOrder {
		if r := fc.rspecs[n]; r != nil && need[specSym(n)] {
			rs = append(rs, r)
		}
	}
	var out []string
	if len(rs) == 0 {
		return nil
	}
	if enc == encAx {
		for _, r := range rs {
			out = append(out, fmt.Sprintf("(declare-fun %s (%s) %s)", specSym(r.name), r.sig, r.ret))
		}
		for _, r := range rs {
			if r.body == "" {
				continue
			}
			call := "(" + specSym(r.name) + " " + r.call + ")"
			if r.call == "" {
				out = append(out, fmt.Sprintf("(assert (= %s %s))", specSym(r.name), r.body))
				continue
			}
			out = append(out, fmt.Sprintf("(assert (forall (%s) (! (= %s %s) :pattern (%s))))", r.params, call, r.body, call))
		}
		return out
	}
	// strongly connected components in dependency order: non-recursive functions become macros
	// (define-fun), recursive groups become define-funs-rec
	idx := map[string]int{}
	for i, r := range rs {
		idx[specSym(r.name)] = i
	}
	n := len(rs)
	reach := make([][]bool, n)
	for i := range reach {
		reach[i] = make([]bool, n)
		for _, d := range rs[i].deps {
			if j, ok := idx[d]; ok {
				reach[i][j] = true
			}
		}
	}
	for k := 0; k < n; k++ {
		for i := 0; i < n; i++ {
			if reach[i][k] {
				for j := 0; j < n; j++ {
					if reach[k][j] {
						reach[i][j] = true
					}
				}
			}
		}
	}
	emitted := make([]bool, n)
	for done := 0; done < n; {
		progress := false
		for i := 0; i < n; i++ {
			if emitted[i] {
				continue
			}
			// component of i
			comp := []int{i}
			for j := 0; j < n; j++ {
				if j != i && reach[i][j] && reach[j][i] {
					comp = append(comp, j)
				}
			}
			inComp := map[int]bool{}
			for _, c := range comp {
				inComp[c] = true
			}
			ready := true
			for _, c := range comp {
				for j := 0; j < n; j++ {
					if reach[c][j] && !inComp[j] && !emitted[j] {
						ready = false
					}
				}
			}
			if !ready {
				continue
			}
			progress = true
			if len(comp) == 1 && rs[i].body == "" {
				out = append(out, fmt.Sprintf("(declare-fun %s (%s) %s)", specSym(rs[i].name), rs[i].sig, rs[i].ret))
			} else if len(comp) == 1 && !reach[i][i] {
				out = append(out, fmt.Sprintf("(define-fun %s (%s) %s %s)", specSym(rs[i].name), rs[i].params, rs[i].ret, rs[i].body))
			} else {
				var sigs, bodies []string
				for _, c := range comp {
					if rs[c].body == "" {
						out = append(out, fmt.Sprintf("(declare-fun %s (%s) %s)", specSym(rs[c].name), rs[c].sig, rs[c].ret))
						continue
					}
					sigs = append(sigs, fmt.Sprintf("(%s (%s) %s)", specSym(rs[c].name), rs[c].params, rs[c].ret))
					bodies = append(bodies, rs[c].body)
				}
				if len(sigs) > 0 && enc == encOpaque {
					for _, c := range comp {
						if rs[c].body != "" {
							out = append(out, fmt.Sprintf("(declare-fun %s (%s) %s)", specSym(rs[c].name), rs[c].sig, rs[c].ret))
						}
					}
				} else if len(sigs) > 0 {
					out = append(out, fmt.Sprintf("(define-funs-rec (%s) (%s))", strings.Join(sigs, " "), strings.Join(bodies, " ")))
				}
			}
			for _, c := range comp {
				emitted[c] = true
				done++
			}
		}
		if !progress {
			break
		}
	}
	return out
}

// opaque: the contract asks to hide the definition of a spec function in this function's proofs
// (opt opaque = f g h); the function is then an uninterpreted symbol, which is sound for proving.
func (fc *FnCtx) opaque(name string) bool {
	if fc.con == nil {
		return false
	}
	for _, n := range strings.Fields(strings.ReplaceAll(fc.con.Opts["opaque"], ",", " ")) {
		if n == name {
			return true
		}
	}
	return false
}
